/* world-side thunk for the byte-order helpers. Compiled a second time with
 * -DW_BO=w_bo2 and the host-order macro forced to the other branch, to compare
 * the two helper sets of Byteorder.h as functions (C13 "mirror images"). */
#include <stdint.h>
#ifdef W_FORCE_BIG
#undef __BYTE_ORDER__
#define __BYTE_ORDER__ __ORDER_BIG_ENDIAN__
#endif
#ifdef W_FORCE_LITTLE
#undef __BYTE_ORDER__
#define __BYTE_ORDER__ __ORDER_LITTLE_ENDIAN__
#endif
#include "avtp/Byteorder.h"
#ifndef W_BO
#define W_BO w_bo
#endif
#define W_CAT2(a, b) a##b
#define W_CAT(a, b) W_CAT2(a, b)
#define W_BOC W_CAT(W_BO, c)          /* w_boc, w_bo2c, ...: the same helpers called with literal arguments */

/* every argument expression has a side effect: a helper that became a macro and expands its argument twice is seen */
#ifndef W_TLS
#define W_TLS
#endif
extern W_TLS unsigned long w_ev; extern unsigned long w_ev_bad; extern const char* w_ev_name;
#define W_A(x) (w_ev++, (x))
#define W_CHK(n, name) do { if (w_ev != (n)) { w_ev_bad++; w_ev_name = (name); } w_ev = 0; } while (0)

/* byte-order helpers: returns the helper's result as a register value and
 * stores the result object's memory image (what a memcpy of the object sees)
 * into image[0..n) */
static void img16(uint8_t* image, uint16_t r) { uint8_t* p = (uint8_t*)&r; image[0] = p[0]; image[1] = p[1]; }
static void img32(uint8_t* image, uint32_t r) { uint8_t* p = (uint8_t*)&r; for (int i = 0; i < 4; i++) image[i] = p[i]; }
static void img64(uint8_t* image, uint64_t r) { uint8_t* p = (uint8_t*)&r; for (int i = 0; i < 8; i++) image[i] = p[i]; }

uint64_t W_BO(uint64_t helper, uint64_t x, uint8_t* image)
{
    switch (helper) {
    case 0: { w_ev = 0; uint16_t r = Avtp_Bswap16(W_A((uint16_t)x)); W_CHK(1, "Avtp_Bswap16"); img16(image, r); return r; }
    case 1: { w_ev = 0; uint32_t r = Avtp_Bswap32(W_A((uint32_t)x)); W_CHK(1, "Avtp_Bswap32"); img32(image, r); return r; }
    case 2: { w_ev = 0; uint64_t r = Avtp_Bswap64(W_A(x)); W_CHK(1, "Avtp_Bswap64"); img64(image, r); return r; }
    case 3: { w_ev = 0; uint16_t r = Avtp_CpuToLe16(W_A((uint16_t)x)); W_CHK(1, "Avtp_CpuToLe16"); img16(image, r); return r; }
    case 4: { w_ev = 0; uint32_t r = Avtp_CpuToLe32(W_A((uint32_t)x)); W_CHK(1, "Avtp_CpuToLe32"); img32(image, r); return r; }
    case 5: { w_ev = 0; uint64_t r = Avtp_CpuToLe64(W_A(x)); W_CHK(1, "Avtp_CpuToLe64"); img64(image, r); return r; }
    case 6: { w_ev = 0; uint16_t r = Avtp_CpuToBe16(W_A((uint16_t)x)); W_CHK(1, "Avtp_CpuToBe16"); img16(image, r); return r; }
    case 7: { w_ev = 0; uint32_t r = Avtp_CpuToBe32(W_A((uint32_t)x)); W_CHK(1, "Avtp_CpuToBe32"); img32(image, r); return r; }
    case 8: { w_ev = 0; uint64_t r = Avtp_CpuToBe64(W_A(x)); W_CHK(1, "Avtp_CpuToBe64"); img64(image, r); return r; }
    case 9: { w_ev = 0; uint16_t r = Avtp_LeToCpu16(W_A((uint16_t)x)); W_CHK(1, "Avtp_LeToCpu16"); img16(image, r); return r; }
    case 10: { w_ev = 0; uint32_t r = Avtp_LeToCpu32(W_A((uint32_t)x)); W_CHK(1, "Avtp_LeToCpu32"); img32(image, r); return r; }
    case 11: { w_ev = 0; uint64_t r = Avtp_LeToCpu64(W_A(x)); W_CHK(1, "Avtp_LeToCpu64"); img64(image, r); return r; }
    case 12: { w_ev = 0; uint16_t r = Avtp_BeToCpu16(W_A((uint16_t)x)); W_CHK(1, "Avtp_BeToCpu16"); img16(image, r); return r; }
    case 13: { w_ev = 0; uint32_t r = Avtp_BeToCpu32(W_A((uint32_t)x)); W_CHK(1, "Avtp_BeToCpu32"); img32(image, r); return r; }
    case 14: { w_ev = 0; uint64_t r = Avtp_BeToCpu64(W_A(x)); W_CHK(1, "Avtp_BeToCpu64"); img64(image, r); return r; }
    }
    return 0;
}

#include "wrap_bo_const.inc"
