/* world-side thunk for the byte-order helpers. Compiled a second time with
 * -DW_BO=w_bo2 and the host-order macro forced to the other branch, to compare
 * the two helper sets of Byteorder.h as functions (C13 "mirror images"). */
#include <stdint.h>
#ifdef W_FORCE_BIG
#undef __BYTE_ORDER__
#define __BYTE_ORDER__ __ORDER_BIG_ENDIAN__
#endif
#ifdef W_FORCE_LITTLE
#undef __BYTE_ORDER__
#define __BYTE_ORDER__ __ORDER_LITTLE_ENDIAN__
#endif
#include "avtp/Byteorder.h"
#ifndef W_BO
#define W_BO w_bo
#endif
#define W_CAT2(a, b) a##b
#define W_CAT(a, b) W_CAT2(a, b)
#define W_BOC W_CAT(W_BO, c)          /* w_boc, w_bo2c, ...: the same helpers called with literal arguments */

/* byte-order helpers: returns the helper's result as a register value and
 * stores the result object's memory image (what a memcpy of the object sees)
 * into image[0..n) */
static void img16(uint8_t* image, uint16_t r) { uint8_t* p = (uint8_t*)&r; image[0] = p[0]; image[1] = p[1]; }
static void img32(uint8_t* image, uint32_t r) { uint8_t* p = (uint8_t*)&r; for (int i = 0; i < 4; i++) image[i] = p[i]; }
static void img64(uint8_t* image, uint64_t r) { uint8_t* p = (uint8_t*)&r; for (int i = 0; i < 8; i++) image[i] = p[i]; }

uint64_t W_BO(uint64_t helper, uint64_t x, uint8_t* image)
{
    switch (helper) {
    case 0:  { uint16_t r = Avtp_Bswap16((uint16_t)x);   img16(image, r); return r; }
    case 1:  { uint32_t r = Avtp_Bswap32((uint32_t)x);   img32(image, r); return r; }
    case 2:  { uint64_t r = Avtp_Bswap64(x);             img64(image, r); return r; }
    case 3:  { uint16_t r = Avtp_CpuToLe16((uint16_t)x); img16(image, r); return r; }
    case 4:  { uint32_t r = Avtp_CpuToLe32((uint32_t)x); img32(image, r); return r; }
    case 5:  { uint64_t r = Avtp_CpuToLe64(x);           img64(image, r); return r; }
    case 6:  { uint16_t r = Avtp_CpuToBe16((uint16_t)x); img16(image, r); return r; }
    case 7:  { uint32_t r = Avtp_CpuToBe32((uint32_t)x); img32(image, r); return r; }
    case 8:  { uint64_t r = Avtp_CpuToBe64(x);           img64(image, r); return r; }
    case 9:  { uint16_t r = Avtp_LeToCpu16((uint16_t)x); img16(image, r); return r; }
    case 10: { uint32_t r = Avtp_LeToCpu32((uint32_t)x); img32(image, r); return r; }
    case 11: { uint64_t r = Avtp_LeToCpu64(x);           img64(image, r); return r; }
    case 12: { uint16_t r = Avtp_BeToCpu16((uint16_t)x); img16(image, r); return r; }
    case 13: { uint32_t r = Avtp_BeToCpu32((uint32_t)x); img32(image, r); return r; }
    case 14: { uint64_t r = Avtp_BeToCpu64(x);           img64(image, r); return r; }
    }
    return 0;
}

#include "wrap_bo_const.inc"
