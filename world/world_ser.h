#pragma once
#include <stdint.h>
void     w_can_create(uint8_t* pdu, uint64_t id, uint8_t* payload, uint64_t len, uint64_t variant);
void     w_can_steps(uint8_t* pdu, uint64_t id, uint8_t* payload, uint64_t len, uint64_t variant);
void     w_can_steps_inplace(uint8_t* pdu, uint64_t id, uint8_t* payload, uint64_t len, uint64_t variant);
uint64_t w_can_paylen(uint8_t* pdu);
uint64_t w_can_payoff(uint8_t* pdu);
uint64_t w_canbrief_create(uint8_t* pdu, uint64_t id, uint8_t* payload, uint64_t len, uint64_t variant);
uint64_t w_canbrief_steps(uint8_t* pdu, uint64_t id, uint8_t* payload, uint64_t len, uint64_t variant);
void     w_vss_pad(uint8_t* pdu, uint64_t len);
void     w_vss_pad_getters(uint8_t* pdu, uint64_t len, uint8_t* out);
uint64_t w_vss_pathlen(uint8_t* pdu);
void     w_vss_set_path(uint8_t* pdu, uint64_t kind, uint64_t static_id, uint8_t* path, uint64_t pathlen);
void     w_vss_get_path(uint8_t* pdu, uint64_t kind, uint8_t* dest, uint8_t* out);
void     w_vss_set_data(uint8_t* pdu, uint64_t shape, uint8_t* canon, uint64_t nbytes, uint8_t* typed);
void     w_vss_get_data(uint8_t* pdu, uint64_t shape, uint8_t* dest, uint8_t* out_canon, uint8_t* meta);
void     w_vss_get_data2(uint8_t* pdu, uint64_t shape, uint8_t* dest, uint8_t* out_canon, uint8_t* meta, uint64_t prefill);
void     w_vss_get_path2(uint8_t* pdu, uint64_t kind, uint8_t* dest, uint8_t* out, uint64_t prefill);
uint64_t w_sa_unpack2(uint8_t* packed, uint64_t data_length, uint64_t req, uint8_t* dest, uint8_t* offs_be, uint8_t* out_lens_be, uint64_t prefill);
uint64_t w_sa_pack(uint8_t* lens_be, uint8_t* bytes, uint64_t n, uint8_t* packed);
uint64_t w_sa_pack2(uint8_t* lens_be, uint8_t* bytes, uint64_t n, uint8_t* packed, uint64_t null_for_empty);
uint64_t w_sa_count(uint8_t* packed, uint64_t data_length);
uint64_t w_sa_unpack(uint8_t* packed, uint64_t data_length, uint64_t req, uint8_t* dest, uint8_t* offs_be, uint8_t* out_lens_be);
uint64_t w_bo2(uint64_t helper, uint64_t x, uint8_t* image);
uint64_t w_bo3(uint64_t helper, uint64_t x, uint8_t* image) __attribute__((weak));
uint64_t w_bo4(uint64_t helper, uint64_t x, uint8_t* image) __attribute__((weak));   /* helper set as compiled after <byteswap.h>, <endian.h>, <arpa/inet.h>, <sys/param.h> (worlds with a hosted libc only) */
uint64_t w_bo5(uint64_t helper, uint64_t x, uint8_t* image) __attribute__((weak));   /* helper set compiled with _MSC_VER defined (LLP64 world only) */
uint64_t w_boc(uint64_t helper, uint64_t k, uint8_t* image);   /* literal arguments; helper 99: number of constants, 98: constant k */
uint64_t w_bo4c(uint64_t helper, uint64_t k, uint8_t* image) __attribute__((weak));   /* helper set as compiled without predefined byte-order macros (little-endian worlds only) */
