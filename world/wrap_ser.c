/* world-side thunks for the hand-written serialisers: ACF-CAN builders, VSS
 * codec, VSS finalisation, VSS string arrays. Flat ABI: uint64_t scalars and
 * byte pointers only; every typed object the library wants (VssPath_t,
 * VssData_t, element arrays) is built here, inside the world, by arithmetic
 * from canonical big-endian byte strings, so the native checker never touches
 * typed memory. No static storage (C16 looks at these objects too). */
#include <stdint.h>
#include <string.h>
#include "avtp/acf/Can.h"
#include "avtp/acf/CanBrief.h"
#include "avtp/acf/custom/Vss.h"

/* how the thunks call the library: every pointer argument is written as an unparenthesised sum (a function-like macro that
 * shadows an entry point and casts its argument without parentheses computes another address), and the call goes either
 * by name or, with w_pm set, through the parenthesised name, which reaches the exported function behind such a macro */
extern unsigned long w_pm;
#define W_CALL(F, ...) (w_pm ? (F)(__VA_ARGS__) : F(__VA_ARGS__))
#define W_CALLV(F, ...) do { if (w_pm) (F)(__VA_ARGS__); else F(__VA_ARGS__); } while (0)
/* two unparenthesised spellings of the same address: a typed pointer plus one element (trips a macro that casts to a byte
 * pointer) and, in the world built with W_UNTYPED, an untyped pointer plus 16 bytes (trips a macro that casts to a structure pointer) */
#ifdef W_UNTYPED
#define W_PT(T, x) (void*)((uint8_t*)(x) - ((x) ? 16 : 0)) + ((x) ? 16 : 0)
#else
#define W_PT(T, x) (T*)((uint8_t*)(x) - ((x) ? sizeof(T) : 0)) + ((x) ? 1 : 0)
#endif

/* ---------------- ACF-CAN ---------------- */
void w_can_create(uint8_t* pdu, uint64_t id, uint8_t* payload, uint64_t len, uint64_t variant)
{
    W_CALLV(Avtp_Can_CreateAcfMessage, W_PT(Avtp_Can_t, pdu), (uint32_t)id, payload, (uint16_t)len, (Avtp_CanVariant_t)variant);
}

/* the separate steps a talker may use instead of the one-shot builder */
void w_can_steps(uint8_t* pdu, uint64_t id, uint8_t* payload, uint64_t len, uint64_t variant)
{
    Avtp_Can_t* p = (Avtp_Can_t*)pdu;
    W_CALLV(Avtp_Can_SetPayload, p, payload, (uint16_t)len);
    W_CALLV(Avtp_Can_SetEff, p, (uint32_t)id > 0x7ff ? 1 : 0);
    W_CALLV(Avtp_Can_SetCanIdentifier, p, (uint32_t)id);
    W_CALLV(Avtp_Can_SetFdf, p, (uint8_t)variant);
    W_CALLV(Avtp_Can_Finalize, p, (uint16_t)len);
}

/* a talker that writes the payload in place (through the payload accessor) and then finalises */
void w_can_steps_inplace(uint8_t* pdu, uint64_t id, uint8_t* payload, uint64_t len, uint64_t variant)
{
    Avtp_Can_t* p = (Avtp_Can_t*)pdu;
    memcpy(W_CALL(Avtp_Can_GetPayload, p), payload, (size_t)len);
    W_CALLV(Avtp_Can_SetFdf, p, (uint8_t)variant);
    W_CALLV(Avtp_Can_SetCanIdentifier, p, (uint32_t)id);
    W_CALLV(Avtp_Can_SetEff, p, (uint32_t)id > 0x7ff ? 1 : 0);
    W_CALLV(Avtp_Can_Finalize, p, (uint16_t)len);
}

uint64_t w_can_paylen(uint8_t* pdu) { return W_CALL(Avtp_Can_GetCanPayloadLength, W_PT(Avtp_Can_t, pdu)); }
uint64_t w_can_payoff(uint8_t* pdu) { return (uint64_t)(W_CALL(Avtp_Can_GetPayload, W_PT(Avtp_Can_t, pdu)) - pdu); }

uint64_t w_canbrief_create(uint8_t* pdu, uint64_t id, uint8_t* payload, uint64_t len, uint64_t variant)
{
    return (uint64_t)(int64_t)W_CALL(Avtp_CanBrief_SetPayload, W_PT(Avtp_CanBrief_t, pdu), (uint32_t)id, payload, (uint16_t)len, (Avtp_CanVariant_t)variant);
}

uint64_t w_canbrief_steps(uint8_t* pdu, uint64_t id, uint8_t* payload, uint64_t len, uint64_t variant)
{
    Avtp_CanBrief_t* p = (Avtp_CanBrief_t*)pdu;
    memcpy(p->payload, payload, (size_t)len);
    W_CALLV(Avtp_CanBrief_SetEff, p, (uint32_t)id > 0x7ff ? 1 : 0);
    W_CALLV(Avtp_CanBrief_SetCanIdentifier, p, (uint32_t)id);
    W_CALLV(Avtp_CanBrief_SetFdf, p, (uint8_t)variant);
    return (uint64_t)(int64_t)W_CALL(Avtp_CanBrief_Finalize, p, (uint16_t)len);
}

/* ---------------- VSS ---------------- */
void w_vss_pad(uint8_t* pdu, uint64_t len) { W_CALLV(Avtp_Vss_Pad, W_PT(Avtp_Vss_t, pdu), (uint16_t)len); }
/* read length and pad through the dedicated getters, finalise, read them again - all inside one function, as an
 * application does; out: length before, pad before, length after, pad after (16 bits each, big-endian) */
void w_vss_pad_getters(uint8_t* pdu, uint64_t len, uint8_t* out)
{
    Avtp_Vss_t* v = (Avtp_Vss_t*)pdu;
    uint16_t l0 = W_CALL(Avtp_Vss_GetAcfMsgLength, v), p0 = W_CALL(Avtp_Vss_GetPad, v);
    W_CALLV(Avtp_Vss_Pad, v, (uint16_t)len);
    uint16_t l1 = W_CALL(Avtp_Vss_GetAcfMsgLength, v), p1 = W_CALL(Avtp_Vss_GetPad, v);
    out[0] = (uint8_t)(l0 >> 8); out[1] = (uint8_t)l0; out[2] = (uint8_t)(p0 >> 8); out[3] = (uint8_t)p0;
    out[4] = (uint8_t)(l1 >> 8); out[5] = (uint8_t)l1; out[6] = (uint8_t)(p1 >> 8); out[7] = (uint8_t)p1;
}
uint64_t w_vss_pathlen(uint8_t* pdu) { return W_CALL(Avtp_Vss_CalcVssPathLength, W_PT(Avtp_Vss_t, pdu)); }

/* kind 0: caller's VssPath_t holds an interop path (length + pointer); kind 1: a static id */
void w_vss_set_path(uint8_t* pdu, uint64_t kind, uint64_t static_id, uint8_t* path, uint64_t pathlen)
{
    VssPath_t vp;
    memset(&vp, 0, sizeof vp);
    if (kind == 1) vp.vss_static_id_path = (uint32_t)static_id;
    else { vp.vss_interop_path.path_length = (uint16_t)pathlen; vp.vss_interop_path.path = (char*)path; }
    W_CALLV(Avtp_Vss_SetVssPath, W_PT(Avtp_Vss_t, pdu), &vp);
}

/* out[0..1] path_length BE (or 0xA5A5 when untouched), out[2] = 1 when the path pointer was changed,
 * out[4..7] static id BE */
void w_vss_get_path2(uint8_t* pdu, uint64_t kind, uint8_t* dest, uint8_t* out, uint64_t prefill);
void w_vss_get_path(uint8_t* pdu, uint64_t kind, uint8_t* dest, uint8_t* out) { w_vss_get_path2(pdu, kind, dest, out, 0xA5); }
/* prefill: the byte the caller's VssPath_t is filled with beforehand */
void w_vss_get_path2(uint8_t* pdu, uint64_t kind, uint8_t* dest, uint8_t* out, uint64_t prefill)
{
    struct { uint64_t c1; VssPath_t vp; uint64_t c2; } s;
    memset(&s, 0xA5, sizeof s);
    memset(&s.vp, (int)prefill, sizeof s.vp);
    if (kind == 0) s.vp.vss_interop_path.path = (char*)dest;
    W_CALLV(Avtp_Vss_GetVssPath, W_PT(Avtp_Vss_t, pdu), &s.vp);
    memset(out, 0, 8);
    if (kind == 0) {
        out[0] = (uint8_t)(s.vp.vss_interop_path.path_length >> 8);
        out[1] = (uint8_t)(s.vp.vss_interop_path.path_length);
        out[2] = s.vp.vss_interop_path.path != (char*)dest;
    } else {
        uint32_t id = s.vp.vss_static_id_path;
        out[4] = (uint8_t)(id >> 24); out[5] = (uint8_t)(id >> 16); out[6] = (uint8_t)(id >> 8); out[7] = (uint8_t)id;
    }
    out[3] = (s.c1 != 0xA5A5A5A5A5A5A5A5ull) | (s.c2 != 0xA5A5A5A5A5A5A5A5ull);
}

static uint64_t be_load(const uint8_t* p, unsigned n)
{
    uint64_t v = 0;
    for (unsigned i = 0; i < n; i++) v = (v << 8) | p[i];
    return v;
}
static void be_store(uint8_t* p, unsigned n, uint64_t v)
{
    for (unsigned i = 0; i < n; i++) p[i] = (uint8_t)(v >> (8 * (n - 1 - i)));
}
static unsigned elem_size(unsigned code)      /* scalar code 0..10 */
{
    switch (code) {
    case 0: case 1: case 8: return 1;
    case 2: case 3: return 2;
    case 4: case 5: case 9: return 4;
    case 6: case 7: case 10: return 8;
    }
    return 0;
}

/* canonical BE element bytes -> host-typed element storage */
static void to_typed(unsigned code, const uint8_t* canon, uint8_t* typed, uint64_t nelem)
{
    unsigned es = elem_size(code);
    for (uint64_t i = 0; i < nelem; i++) {
        uint64_t v = be_load(canon + i * es, es);
        switch (es) {
        case 1: typed[i] = (uint8_t)v; break;
        case 2: { uint16_t x = (uint16_t)v; memcpy(typed + 2 * i, &x, 2); break; }
        case 4: { uint32_t x = (uint32_t)v; memcpy(typed + 4 * i, &x, 4); break; }
        case 8: { uint64_t x = v; memcpy(typed + 8 * i, &x, 8); break; }
        }
    }
}
static void from_typed(unsigned code, const uint8_t* typed, uint8_t* canon, uint64_t nelem)
{
    unsigned es = elem_size(code);
    for (uint64_t i = 0; i < nelem; i++) {
        uint64_t v = 0;
        switch (es) {
        case 1: v = typed[i]; break;
        case 2: { uint16_t x; memcpy(&x, typed + 2 * i, 2); v = x; break; }
        case 4: { uint32_t x; memcpy(&x, typed + 4 * i, 4); v = x; break; }
        case 8: { uint64_t x; memcpy(&x, typed + 8 * i, 8); v = x; break; }
        }
        be_store(canon + i * es, es, v);
    }
}

/* shape: the datatype the caller's value object is shaped for (0..11 scalar/string, 0x80..0x8B arrays).
 * canon: canonical value bytes (scalars: BE; strings/byte arrays: the bytes; arrays: BE elements), nbytes
 * their count. typed: naturally aligned scratch of >= nbytes bytes (caller owned). */
void w_vss_set_data(uint8_t* pdu, uint64_t shape, uint8_t* canon, uint64_t nbytes, uint8_t* typed)
{
    VssData_t val;
    VssDataUint64Array_t arr;        /* every array struct has this layout: u16 length + pointer */
    memset(&val, 0, sizeof val);
    if (shape <= 10) {
        unsigned es = elem_size((unsigned)shape);
        uint64_t v = be_load(canon, es);
        switch (shape) {
        case 0: val.data_uint8 = (uint8_t)v; break;
        case 1: val.data_int8 = (int8_t)(uint8_t)v; break;
        case 2: val.data_uint16 = (uint16_t)v; break;
        case 3: val.data_int16 = (int16_t)(uint16_t)v; break;
        case 4: val.data_uint32 = (uint32_t)v; break;
        case 5: val.data_int32 = (int32_t)(uint32_t)v; break;
        case 6: val.data_uint64 = v; break;
        case 7: val.data_int64 = (int64_t)v; break;
        case 8: val.data_bool = (uint8_t)v; break;
        case 9: { uint32_t x = (uint32_t)v; memcpy(&val.data_float, &x, 4); break; }
        case 10: { uint64_t x = v; memcpy(&val.data_double, &x, 8); break; }
        }
    } else {
        unsigned code = shape == 11 ? 0 : (unsigned)(shape & 0x7f);
        if (code == 11) code = 0;            /* string array: packed bytes */
        unsigned es = elem_size(code);
        if (typed) to_typed(code, canon, typed, nbytes / es);
        arr.data_length = (uint16_t)nbytes;
        arr.data = (uint64_t*)(void*)typed;       /* NULL is passed through for empty values: a caller without data */
        val.data_uint64_array = &arr;
    }
    W_CALLV(Avtp_Vss_SetVssData, W_PT(Avtp_Vss_t, pdu), &val);
}

/* decode. shape as above. dest: destination for variable-length values (NULL = length query), naturally
 * aligned, owned by the caller. out_canon receives the canonical bytes of what was decoded (scalars: es
 * bytes; variable: floor(data_length/es) elements read back from dest). meta: [0..1] data_length BE,
 * [2] data pointer changed, [3] canary around the result object damaged */
void w_vss_get_data2(uint8_t* pdu, uint64_t shape, uint8_t* dest, uint8_t* out_canon, uint8_t* meta, uint64_t prefill);
void w_vss_get_data(uint8_t* pdu, uint64_t shape, uint8_t* dest, uint8_t* out_canon, uint8_t* meta) { w_vss_get_data2(pdu, shape, dest, out_canon, meta, 0xA5A5); }
/* prefill: what the result object's data_length holds before the call (a reused or zeroed object) */
void w_vss_get_data2(uint8_t* pdu, uint64_t shape, uint8_t* dest, uint8_t* out_canon, uint8_t* meta, uint64_t prefill)
{
    struct { uint64_t c1; VssData_t val; uint64_t c2; VssDataUint64Array_t arr; uint64_t c3; } s;
    memset(&s, 0xA5, sizeof s);
    memset(meta, 0, 4);
    if (shape <= 10) {
        W_CALLV(Avtp_Vss_GetVssData, W_PT(Avtp_Vss_t, pdu), &s.val);
        uint64_t v = 0;
        switch (shape) {
        case 0: v = s.val.data_uint8; break;
        case 1: v = (uint8_t)s.val.data_int8; break;
        case 2: v = s.val.data_uint16; break;
        case 3: v = (uint16_t)s.val.data_int16; break;
        case 4: v = s.val.data_uint32; break;
        case 5: v = (uint32_t)s.val.data_int32; break;
        case 6: v = s.val.data_uint64; break;
        case 7: v = (uint64_t)s.val.data_int64; break;
        case 8: v = s.val.data_bool; break;
        case 9: { uint32_t x; memcpy(&x, &s.val.data_float, 4); v = x; break; }
        case 10: { uint64_t x; memcpy(&x, &s.val.data_double, 8); v = x; break; }
        }
        be_store(out_canon, elem_size((unsigned)shape), v);
    } else {
        unsigned code = shape == 11 ? 0 : (unsigned)(shape & 0x7f);
        if (code == 11) code = 0;
        unsigned es = elem_size(code);
        s.arr.data = (uint64_t*)(void*)dest;
        s.arr.data_length = (uint16_t)prefill;
        s.val.data_uint64_array = &s.arr;
        W_CALLV(Avtp_Vss_GetVssData, W_PT(Avtp_Vss_t, pdu), &s.val);
        meta[0] = (uint8_t)(s.arr.data_length >> 8);
        meta[1] = (uint8_t)s.arr.data_length;
        meta[2] = (s.arr.data != (uint64_t*)(void*)dest) | (s.val.data_uint64_array != &s.arr);
        if (dest) from_typed(code, dest, out_canon, s.arr.data_length / es);
    }
    meta[3] = (s.c1 != 0xA5A5A5A5A5A5A5A5ull) | (s.c2 != 0xA5A5A5A5A5A5A5A5ull) | (s.c3 != 0xA5A5A5A5A5A5A5A5ull);
}

/* ---------------- VSS string arrays ---------------- */
#define SA_MAX 320
/* descriptor i lives in slot SLOT(i): contiguous, or scattered and in reverse order in a pool twice the size */
#define SLOT(i, n, scattered) ((scattered) ? 2 * ((n) - 1 - (i)) + 1 : (i))
/* lens_be: n 16-bit BE lengths; bytes: the strings' bytes back to back; packed: destination; returns data_length */
uint64_t w_sa_pack2(uint8_t* lens_be, uint8_t* bytes, uint64_t n, uint8_t* packed, uint64_t null_for_empty);
uint64_t w_sa_pack(uint8_t* lens_be, uint8_t* bytes, uint64_t n, uint8_t* packed) { return w_sa_pack2(lens_be, bytes, n, packed, 0); }
/* null_for_empty: empty strings are given as {data_length 0, data NULL}, as a caller without text would */
uint64_t w_sa_pack2(uint8_t* lens_be, uint8_t* bytes, uint64_t n, uint8_t* packed, uint64_t null_for_empty)
{
    VssDataString_t strs[2 * SA_MAX + 2];
    VssDataString_t* ptrs[SA_MAX];
    VssDataStringArray_t sa;
    uint64_t off = 0;
    int scattered = (int)((null_for_empty >> 1) & 1);
    null_for_empty &= 1;
    for (uint64_t i = 0; i < n && i < SA_MAX; i++) {
        VssDataString_t* d = &strs[SLOT(i, n, scattered)];
        d->data_length = (uint16_t)be_load(lens_be + 2 * i, 2);
        d->data = (null_for_empty && d->data_length == 0) ? (char*)0 : (char*)bytes + off;
        off += d->data_length;
        ptrs[i] = d;
    }
    sa.data_length = 0xA5A5;
    sa.data = packed;
    W_CALLV(Avtp_Vss_SerializeStringArray, &sa, ptrs, (uint16_t)n);
    return (uint64_t)sa.data_length | ((uint64_t)(sa.data != packed) << 32);
}

uint64_t w_sa_count(uint8_t* packed, uint64_t data_length)
{
    VssDataStringArray_t sa;
    sa.data_length = (uint16_t)data_length;
    sa.data = packed;
    return W_CALL(Avtp_Vss_GetVSSDataStringArrayLength, &sa);
}

/* unpack `req` strings. dest: flat destination area (NULL = lengths only); string i is given the address
 * dest + be32(offs_be + 4*i). out_lens_be receives the req resulting data_length values (0xA5A5 = untouched);
 * returns 1 if any data pointer was changed */
uint64_t w_sa_unpack2(uint8_t* packed, uint64_t data_length, uint64_t req, uint8_t* dest, uint8_t* offs_be, uint8_t* out_lens_be, uint64_t prefill);
uint64_t w_sa_unpack(uint8_t* packed, uint64_t data_length, uint64_t req, uint8_t* dest, uint8_t* offs_be, uint8_t* out_lens_be) { return w_sa_unpack2(packed, data_length, req, dest, offs_be, out_lens_be, 0xA5A5); }
/* prefill: what the destination string objects' data_length holds beforehand */
uint64_t w_sa_unpack2(uint8_t* packed, uint64_t data_length, uint64_t req, uint8_t* dest, uint8_t* offs_be, uint8_t* out_lens_be, uint64_t prefill)
{
    VssDataString_t strs[2 * SA_MAX + 2];
    VssDataString_t* ptrs[SA_MAX];
    VssDataStringArray_t sa;
    uint64_t changed = 0;
    int scattered = (int)((prefill >> 16) & 1);
    int alternate = (int)((prefill >> 17) & 1);         /* every second result object has a NULL destination (its length is wanted, not its bytes) */
    prefill &= 0xFFFF;
    memset(strs, 0x5C, sizeof strs);
    sa.data_length = (uint16_t)data_length;
    sa.data = packed;
    for (uint64_t i = 0; i < req && i < SA_MAX; i++) {
        VssDataString_t* d = &strs[SLOT(i, req, scattered)];
        d->data_length = (uint16_t)prefill;
        d->data = (dest && !(alternate && (i & 1))) ? (char*)dest + be_load(offs_be + 4 * i, 4) : (char*)0;
        ptrs[i] = d;
    }
    W_CALLV(Avtp_Vss_DeserializeStringArray, &sa, ptrs, (uint16_t)req);
    for (uint64_t i = 0; i < req && i < SA_MAX; i++) {
        VssDataString_t* d = &strs[SLOT(i, req, scattered)];
        be_store(out_lens_be + 2 * i, 2, d->data_length);
        if (d->data != ((dest && !(alternate && (i & 1))) ? (char*)dest + be_load(offs_be + 4 * i, 4) : (char*)0)) changed = 1;
    }
    if (scattered) for (uint64_t i = 0; i <= 2 * req && i < 2 * SA_MAX; i += 2) {        /* the unused slots between the descriptors */
        const uint8_t* b = (const uint8_t*)&strs[i];
        for (unsigned k = 0; k < sizeof strs[0]; k++) if (b[k] != 0x5C) changed |= 4;
    }
    if (sa.data_length != (uint16_t)data_length || sa.data != packed) changed |= 2;
    return changed;
}
