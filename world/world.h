/* The world ABI: everything the native checkers call in a "world" (library +
 * thunks compiled by one compiler/flag set, possibly the emulated big-endian
 * one). Only uint64_t scalars and byte pointers cross this boundary. */
#pragma once
#include <stdint.h>
/* generated (gen.py) */
uint64_t w_get(uint64_t fmt, uint64_t fld, uint64_t path, uint8_t* pdu);
uint64_t w_get2(uint64_t fmt, uint64_t fld, uint64_t path, uint8_t* pdu, uint64_t byteidx, uint64_t xorv, uint8_t* out8);
void     w_set(uint64_t fmt, uint64_t fld, uint64_t path, uint8_t* pdu, uint64_t v);
uint64_t w_getid(uint64_t fmt, uint8_t* pdu, uint64_t id);
void     w_setid(uint64_t fmt, uint8_t* pdu, uint64_t id, uint64_t v);
void     w_init(uint64_t fmt, uint8_t* pdu);
uint64_t w_linit(uint64_t fmt, uint8_t* pdu, uint64_t arg);
uint64_t w_lget(uint64_t fmt, uint8_t* pdu, uint64_t id, uint64_t nullval, uint8_t* out8);
uint64_t w_lget_at(uint64_t fmt, uint8_t* pdu, uint64_t id, uint8_t* resultloc);
uint64_t w_lset(uint64_t fmt, uint8_t* pdu, uint64_t id, uint64_t v);
uint64_t w_fact(uint64_t fmt, uint64_t k, uint8_t* pdu);
uint64_t w_enumv(uint64_t fmt, uint64_t fld);
uint64_t w_alias(uint64_t k);
uint64_t w_lstruct(uint64_t k, uint64_t what);
/* hand written (wrap_generic.c) */
uint64_t w_gget(uint64_t q, uint64_t off, uint64_t bits, uint8_t* pdu);
void     w_gset(uint64_t q, uint64_t off, uint64_t bits, uint8_t* pdu, uint64_t v);
uint64_t w_gget2(uint64_t q, uint64_t off, uint64_t bits, uint8_t* pdu, uint64_t byteidx, uint64_t xorv, uint8_t* out8);
uint64_t w_gget_raw(uint64_t nulltable, uint64_t numFields, uint8_t* pdu, uint64_t field);
void     w_gset_raw(uint64_t nulltable, uint64_t numFields, uint8_t* pdu, uint64_t field, uint64_t v);
uint64_t w_bo(uint64_t helper, uint64_t x, uint8_t* image);
uint64_t w_world_id(void);
uint64_t w_world_model(void);
void w_set_callmode(uint64_t m);                    /* 1: call through the parenthesised name (the exported function, not a macro of the same name) */
uint64_t w_ev_mismatches(void);                      /* library calls whose argument expressions were not evaluated exactly once */
uint64_t w_ev_last(uint8_t* out, uint64_t cap);     /* name of the last such function */
