/* world-side thunks for the exported generic bit-field routines and the
 * byte-order helpers */
#include <stdint.h>
#include "avtp/Utils.h"
#include "avtp/Byteorder.h"

uint64_t w_gget(uint64_t q, uint64_t off, uint64_t bits, uint8_t* pdu)
{
    Avtp_FieldDescriptor_t t[1];
    t[0].quadlet = (uint8_t)q; t[0].offset = (uint8_t)off; t[0].bits = (uint8_t)bits;
    return Avtp_GetField(t, 1, pdu, 0);
}

void w_gset(uint64_t q, uint64_t off, uint64_t bits, uint8_t* pdu, uint64_t v)
{
    Avtp_FieldDescriptor_t t[1];
    t[0].quadlet = (uint8_t)q; t[0].offset = (uint8_t)off; t[0].bits = (uint8_t)bits;
    Avtp_SetField(t, 1, pdu, 0, v);
}

/* a three-row table {q0:0..8, q0:8..16, q0:16..32}; field and numFields as given */
static void mk3(Avtp_FieldDescriptor_t* t)
{
    t[0].quadlet = 0; t[0].offset = 0;  t[0].bits = 8;
    t[1].quadlet = 0; t[1].offset = 8;  t[1].bits = 8;
    t[2].quadlet = 0; t[2].offset = 16; t[2].bits = 16;
}

uint64_t w_gget_raw(uint64_t nulltable, uint64_t numFields, uint8_t* pdu, uint64_t field)
{
    Avtp_FieldDescriptor_t t[3];
    mk3(t);
    return Avtp_GetField(nulltable ? (Avtp_FieldDescriptor_t*)0 : t, (uint8_t)numFields, pdu, (uint8_t)field);
}

void w_gset_raw(uint64_t nulltable, uint64_t numFields, uint8_t* pdu, uint64_t field, uint64_t v)
{
    Avtp_FieldDescriptor_t t[3];
    mk3(t);
    Avtp_SetField(nulltable ? (Avtp_FieldDescriptor_t*)0 : t, (uint8_t)numFields, pdu, (uint8_t)field, v);
}

/* byte-order helpers: returns the helper's result as a register value and
 * stores the result object's memory image (what a memcpy of the object sees)
 * into image[0..n) */
static void img16(uint8_t* image, uint16_t r) { uint8_t* p = (uint8_t*)&r; image[0] = p[0]; image[1] = p[1]; }
static void img32(uint8_t* image, uint32_t r) { uint8_t* p = (uint8_t*)&r; for (int i = 0; i < 4; i++) image[i] = p[i]; }
static void img64(uint8_t* image, uint64_t r) { uint8_t* p = (uint8_t*)&r; for (int i = 0; i < 8; i++) image[i] = p[i]; }

uint64_t w_bo(uint64_t helper, uint64_t x, uint8_t* image)
{
    switch (helper) {
    case 0:  { uint16_t r = Avtp_Bswap16((uint16_t)x);   img16(image, r); return r; }
    case 1:  { uint32_t r = Avtp_Bswap32((uint32_t)x);   img32(image, r); return r; }
    case 2:  { uint64_t r = Avtp_Bswap64(x);             img64(image, r); return r; }
    case 3:  { uint16_t r = Avtp_CpuToLe16((uint16_t)x); img16(image, r); return r; }
    case 4:  { uint32_t r = Avtp_CpuToLe32((uint32_t)x); img32(image, r); return r; }
    case 5:  { uint64_t r = Avtp_CpuToLe64(x);           img64(image, r); return r; }
    case 6:  { uint16_t r = Avtp_CpuToBe16((uint16_t)x); img16(image, r); return r; }
    case 7:  { uint32_t r = Avtp_CpuToBe32((uint32_t)x); img32(image, r); return r; }
    case 8:  { uint64_t r = Avtp_CpuToBe64(x);           img64(image, r); return r; }
    case 9:  { uint16_t r = Avtp_LeToCpu16((uint16_t)x); img16(image, r); return r; }
    case 10: { uint32_t r = Avtp_LeToCpu32((uint32_t)x); img32(image, r); return r; }
    case 11: { uint64_t r = Avtp_LeToCpu64(x);           img64(image, r); return r; }
    case 12: { uint16_t r = Avtp_BeToCpu16((uint16_t)x); img16(image, r); return r; }
    case 13: { uint32_t r = Avtp_BeToCpu32((uint32_t)x); img32(image, r); return r; }
    case 14: { uint64_t r = Avtp_BeToCpu64(x);           img64(image, r); return r; }
    }
    return 0;
}
