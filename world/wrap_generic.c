/* world-side thunks for the exported generic bit-field routines and the
 * byte-order helpers */
#include <stdint.h>
#include "avtp/Utils.h"
#include "avtp/Byteorder.h"

uint64_t w_gget(uint64_t q, uint64_t off, uint64_t bits, uint8_t* pdu)
{
    Avtp_FieldDescriptor_t t[1];
    t[0].quadlet = (uint8_t)q; t[0].offset = (uint8_t)off; t[0].bits = (uint8_t)bits;
    return Avtp_GetField(t, 1, pdu, 0);
}

/* two reads with a buffer change in between, in one caller (see the generated get2 thunks) */
uint64_t w_gget2(uint64_t q, uint64_t off, uint64_t bits, uint8_t* pdu, uint64_t byteidx, uint64_t xorv, uint8_t* out8)
{
    Avtp_FieldDescriptor_t t[1];
    t[0].quadlet = (uint8_t)q; t[0].offset = (uint8_t)off; t[0].bits = (uint8_t)bits;
    uint64_t a = Avtp_GetField(t, 1, pdu, 0);
    pdu[byteidx] ^= (uint8_t)xorv;
    uint64_t b = Avtp_GetField(t, 1, pdu, 0);
    for (int i = 0; i < 8; i++) out8[i] = (uint8_t)(b >> (8 * (7 - i)));
    return a;
}

void w_gset(uint64_t q, uint64_t off, uint64_t bits, uint8_t* pdu, uint64_t v)
{
    Avtp_FieldDescriptor_t t[1];
    t[0].quadlet = (uint8_t)q; t[0].offset = (uint8_t)off; t[0].bits = (uint8_t)bits;
    Avtp_SetField(t, 1, pdu, 0, v);
}

/* a three-row table {q0:0..8, q0:8..16, q0:16..32}; field and numFields as given */
static void mk3(Avtp_FieldDescriptor_t* t)
{
    t[0].quadlet = 0; t[0].offset = 0;  t[0].bits = 8;
    t[1].quadlet = 0; t[1].offset = 8;  t[1].bits = 8;
    t[2].quadlet = 0; t[2].offset = 16; t[2].bits = 16;
}

uint64_t w_gget_raw(uint64_t nulltable, uint64_t numFields, uint8_t* pdu, uint64_t field)
{
    Avtp_FieldDescriptor_t t[3];
    mk3(t);
    return Avtp_GetField(nulltable ? (Avtp_FieldDescriptor_t*)0 : t, (uint8_t)numFields, pdu, (uint8_t)field);
}

void w_gset_raw(uint64_t nulltable, uint64_t numFields, uint8_t* pdu, uint64_t field, uint64_t v)
{
    Avtp_FieldDescriptor_t t[3];
    mk3(t);
    Avtp_SetField(nulltable ? (Avtp_FieldDescriptor_t*)0 : t, (uint8_t)numFields, pdu, (uint8_t)field, v);
}

/* 1 when this world stores the most significant byte first */
/* argument-evaluation bookkeeping of the generated thunks (see gen.py: W_A / W_CHK) */
#ifndef W_TLS
#define W_TLS
#endif
W_TLS unsigned long w_ev;
unsigned long w_pm;           /* 1: the thunks call the library through the parenthesised function name */
void w_set_callmode(uint64_t m) { w_pm = (unsigned long)m; }
unsigned long w_ev_bad;
const char* w_ev_name;
uint64_t w_ev_mismatches(void) { return w_ev_bad; }
uint64_t w_ev_last(uint8_t* out, uint64_t cap) { uint64_t i = 0; for (; w_ev_name && w_ev_name[i] && i + 1 < cap; i++) out[i] = (uint8_t)w_ev_name[i]; if (cap) out[i] = 0; return i; }

/* data model of this world: sizeof(int), sizeof(long), sizeof(void*) as decimal digits */
uint64_t w_world_model(void) { return (uint64_t)(sizeof(int) * 100 + sizeof(long) * 10 + sizeof(void*)); }

uint64_t w_world_id(void)
{
    uint32_t one = 1;
    return *(uint8_t*)&one == 0;
}
