/* planted bug for the self-test of the schedule explorer: a function with a
 * shared static counter, instrumented exactly like the library */
#include <stdint.h>
static uint64_t toy_counter;
uint64_t toy_next(void) { uint64_t t = toy_counter; toy_counter = t + 1; return t; }
void toy_reset(void) { toy_counter = 0; }
