#!/usr/bin/env python3
"""LLVM-IR rewriter that turns code compiled for a big-endian target into code
for x86-64 whose *memory images* are big-endian: every load and store of a
16/32/64-bit integer, float, double or pointer is wrapped in llvm.bswap, and
multi-byte integer constants in global initialisers are byte-reversed.
Anything it does not understand makes it fail loudly (exit 3) - never guess.

usage: rewrite.py in.ll out.ll [--identity]
  --identity: retarget only (no swaps): used to validate the pipeline itself"""
import re, sys

X86_DL = 'e-m:e-p270:32:32-p271:32:32-p272:64:64-i64:64-f80:128-n8:16:32:64-S128'
cnt = 0


def tmp():
    global cnt
    cnt += 1
    return '%%vbe%d' % cnt


def die(msg, line=''):
    sys.stderr.write('be/rewrite.py: %s\n   %s\n' % (msg, line.strip()))
    sys.exit(3)


def swapconst(bits, v):
    v &= (1 << bits) - 1
    b = v.to_bytes(bits // 8, 'big')
    r = int.from_bytes(b, 'little')
    if r >= 1 << (bits - 1):
        r -= 1 << bits
    return r


def split_type(s):
    """s starts with a first-class type; returns (type, rest)"""
    s = s.lstrip()
    i = 0
    depth = 0
    # a type: token (iN, float, double, %name, [..], {..}, <..>, void) followed by optional (params) and stars
    m = re.match(r'(i\d+|float|double|half|void|%[\w.]+|%"[^"]+"|ptr)', s)
    if m:
        i = m.end()
    elif s[0] in '[{<':
        close = {'[': ']', '{': '}', '<': '>'}[s[0]]
        depth = 0
        for j, ch in enumerate(s):
            if ch == s[0]:
                depth += 1
            elif ch == close:
                depth -= 1
                if depth == 0:
                    i = j + 1
                    break
    else:
        die('cannot parse type', s)
    # function type suffix and stars
    while True:
        rest = s[i:]
        m = re.match(r'\s*\(', rest)
        if m:
            depth = 0
            for j, ch in enumerate(rest):
                if ch == '(':
                    depth += 1
                elif ch == ')':
                    depth -= 1
                    if depth == 0:
                        i += j + 1
                        break
            continue
        m = re.match(r'\s*(addrspace\(\d+\))?\*', rest)
        if m:
            i += m.end()
            continue
        break
    return s[:i].strip(), s[i:]


def kind_of(ty):
    if ty.endswith('*') or ty == 'ptr':
        return 'ptr', 64
    if ty in ('i16', 'i32', 'i64'):
        return 'int', int(ty[1:])
    if ty == 'float':
        return 'fp', 32
    if ty == 'double':
        return 'fp', 64
    if ty in ('i1', 'i8'):
        return 'byte', 8
    return 'other', 0


def split_operand(rest):
    """rest = ' <value>, <ty>* <ptr>...' -> (value, remainder after the comma); value may be a constant expression"""
    depth = 0
    for j, ch in enumerate(rest):
        if ch in '([{<':
            depth += 1
        elif ch in ')]}>':
            depth -= 1
        elif ch == ',' and depth == 0:
            return rest[:j].strip(), rest[j + 1:]
    die('cannot split operand', rest)


def literal_struct(ty):
    """'{ i64, i64 }' -> ['i64', 'i64'] for a flat literal structure of scalar members (what ABI coercion of a small
    struct produces), else None"""
    t = ty.strip()
    if not (t.startswith('{') and t.endswith('}')) or '{' in t[1:-1] or '[' in t or '<' in t:
        return None
    elems = [e.strip() for e in t[1:-1].split(',')]
    if not elems or any(kind_of(e)[0] == 'other' for e in elems):
        return None
    return elems


def swap_value(ind, ety, v, out):
    """emit code that byte-reverses scalar v of type ety; -> name of the result"""
    k, bits = kind_of(ety)
    if k == 'byte':
        return v
    it = 'i%d' % bits
    if k == 'int':
        s = tmp(); out.append('%s%s = call %s @llvm.bswap.%s(%s %s)' % (ind, s, it, it, it, v)); return s
    a, s, r = tmp(), tmp(), tmp()
    out.append('%s%s = %s %s %s to %s' % (ind, a, 'bitcast' if k == 'fp' else 'ptrtoint', ety, v, it))
    out.append('%s%s = call %s @llvm.bswap.%s(%s %s)' % (ind, s, it, it, it, a))
    out.append('%s%s = %s %s %s to %s' % (ind, r, 'bitcast' if k == 'fp' else 'inttoptr', it, s, ety))
    return r


def rewrite_load(line, out):
    m = re.match(r'^(\s*)(%[\w.]+) = load (volatile )?(.*)$', line)
    ind, res, vol, rest = m.group(1), m.group(2), m.group(3) or '', m.group(4)
    ty, rest = split_type(rest)
    k, bits = kind_of(ty)
    if k == 'byte':
        out.append(line); return
    if k == 'other':
        elems = literal_struct(ty)
        if elems is None:
            die('load of an aggregate/vector/unsupported type', line)
        # member-wise: the aggregate is loaded as it lies in memory, then every multi-byte member is byte-reversed
        raw = tmp()
        out.append('%s%s = load %s%s%s' % (ind, raw, vol, ty, re.sub(r',\s*![\w.]+ ![\w.]+', '', rest)))
        cur = raw
        for i, ety in enumerate(elems):
            e = tmp(); out.append('%s%s = extractvalue %s %s, %d' % (ind, e, ty, cur, i))
            sv = swap_value(ind, ety, e, out)
            nxt = res if i == len(elems) - 1 else tmp()
            out.append('%s%s = insertvalue %s %s, %s %s, %d' % (ind, nxt, ty, cur, ety, sv, i))
            cur = nxt
        return
    # rest: ', <ty>* <ptr>, align N[, metadata]'
    assert rest.lstrip().startswith(','), line
    pty, rest2 = split_type(rest.lstrip()[1:])
    ptr, _, tail = rest2.strip().partition(',')
    tail = (',' + tail) if tail else ''
    tail = re.sub(r',\s*![\w.]+ ![\w.]+', '', tail)      # drop tbaa etc.
    it = 'i%d' % bits
    if k == 'int':
        t = tmp()
        out.append('%s%s = load %s%s, %s %s%s' % (ind, t, vol, ty, pty, ptr.strip(), tail))
        out.append('%s%s = call %s @llvm.bswap.%s(%s %s)' % (ind, res, it, it, it, t))
    else:
        c, t, s = tmp(), tmp(), tmp()
        out.append('%s%s = bitcast %s %s to %s*' % (ind, c, pty, ptr.strip(), it))
        out.append('%s%s = load %s%s, %s* %s%s' % (ind, t, vol, it, it, c, tail))
        out.append('%s%s = call %s @llvm.bswap.%s(%s %s)' % (ind, s, it, it, it, t))
        if k == 'fp':
            out.append('%s%s = bitcast %s %s to %s' % (ind, res, it, s, ty))
        else:
            out.append('%s%s = inttoptr %s %s to %s' % (ind, res, it, s, ty))


def rewrite_store(line, out):
    m = re.match(r'^(\s*)store (volatile )?(.*)$', line)
    ind, vol, rest = m.group(1), m.group(2) or '', m.group(3)
    ty, rest = split_type(rest)
    k, bits = kind_of(ty)
    if k == 'byte':
        out.append(line); return
    if k == 'other':
        elems = literal_struct(ty)
        if elems is None:
            die('store of an aggregate/vector/unsupported type', line)
        val, rest = split_operand(rest)
        cur = val
        for i, ety in enumerate(elems):
            e = tmp(); out.append('%s%s = extractvalue %s %s, %d' % (ind, e, ty, cur, i))
            sv = swap_value(ind, ety, e, out)
            nxt = tmp()
            out.append('%s%s = insertvalue %s %s, %s %s, %d' % (ind, nxt, ty, cur, ety, sv, i))
            cur = nxt
        out.append('%sstore %s%s %s,%s' % (ind, vol, ty, cur, re.sub(r',\s*![\w.]+ ![\w.]+', '', rest)))
        return
    val, rest = split_operand(rest)
    pty, rest2 = split_type(rest)
    ptr, _, tail = rest2.strip().partition(',')
    tail = (',' + tail) if tail else ''
    tail = re.sub(r',\s*![\w.]+ ![\w.]+', '', tail)
    it = 'i%d' % bits
    if k == 'int':
        s = tmp()
        out.append('%s%s = call %s @llvm.bswap.%s(%s %s)' % (ind, s, it, it, it, val))
        out.append('%sstore %s%s %s, %s %s%s' % (ind, vol, it, s, pty, ptr.strip(), tail))
    else:
        a, s, c = tmp(), tmp(), tmp()
        if k == 'fp':
            out.append('%s%s = bitcast %s %s to %s' % (ind, a, ty, val, it))
        else:
            out.append('%s%s = ptrtoint %s %s to %s' % (ind, a, ty, val, it))
        out.append('%s%s = call %s @llvm.bswap.%s(%s %s)' % (ind, s, it, it, it, a))
        out.append('%s%s = bitcast %s %s to %s*' % (ind, c, pty, ptr.strip(), it))
        out.append('%sstore %s%s %s, %s* %s%s' % (ind, vol, it, s, it, c, tail))


def rewrite_global(line):
    """byte-reverse multi-byte integer constants of an initialiser; refuse pointers/floats"""
    m = re.match(r'^(@[\w.$"]+ = .*?(?:global|constant) )(.*)$', line)
    if not m:
        return line
    head, init = m.group(1), m.group(2)
    if ' zeroinitializer' in (' ' + init) and not re.search(r'\bi(16|32|64) -?\d', init):
        return line
    body = re.sub(r'c"(?:[^"\\]|\\.)*"', '', init)
    if re.search(r'\b(float|double) [-0-9x]', body):
        die('floating-point constant in a global initialiser', line)
    if re.search(r'(\*|\bptr) (@|getelementptr|bitcast|inttoptr)', body):
        die('pointer-valued global initialiser', line)

    def sw(mm):
        return 'i%s %d' % (mm.group(1), swapconst(int(mm.group(1)), int(mm.group(2))))
    init = re.sub(r'\bi(16|32|64) (-?\d+)', sw, init)
    return head + init


def main():
    src, dst = sys.argv[1], sys.argv[2]
    identity = '--identity' in sys.argv
    out = []
    need = set()
    have = set()
    for line in open(src):
        line = line.rstrip('\n')
        if line.startswith('target datalayout'):
            out.append('target datalayout = "%s"' % X86_DL); continue
        if line.startswith('target triple'):
            out.append('target triple = "x86_64-pc-linux-gnu"'); continue
        if line.startswith('attributes #'):
            line = re.sub(r'"target-cpu"="[^"]*"\s*', '', line)
            line = re.sub(r'"target-features"="[^"]*"\s*', '', line)
            line = re.sub(r'"tune-cpu"="[^"]*"\s*', '', line)
            out.append(line); continue
        mm = re.match(r'^declare i(16|32|64) @llvm\.bswap\.i\1', line)
        if mm:
            have.add(mm.group(1))
        if identity:
            out.append(line); continue
        if line.startswith('@'):
            out.append(rewrite_global(line)); continue
        st = line.strip()
        if re.match(r'^%[\w.]+ = load ', st):
            if ' atomic ' in st:
                die('atomic load', line)
            rewrite_load(line, out); continue
        if st.startswith('store '):
            if ' atomic ' in st:
                die('atomic store', line)
            rewrite_store(line, out); continue
        if re.match(r'^(%[\w.]+ = )?(cmpxchg|atomicrmw|va_arg)\b', st):
            die('unsupported memory instruction', line)
        if re.search(r'<\d+ x (i16|i32|i64|float|double)>', st) and (' load ' in st or st.startswith('store ')):
            die('vector memory operation', line)
        out.append(line)
    text = '\n'.join(out) + '\n'
    for b in ('16', '32', '64'):
        if '@llvm.bswap.i%s(' % b in text and b not in have:
            text += 'declare i%s @llvm.bswap.i%s(i%s)\n' % (b, b, b)
    open(dst, 'w').write(text)


if __name__ == '__main__':
    main()
