/* world-side self-test of the big-endian emulation: known answers that are
 * only right if memory images really are big-endian */
#include <stdint.h>
#include <string.h>
static const uint32_t table32[2] = {0x01020304u, 0xA1B2C3D4u};
static const uint16_t table16[2] = {0x0102u, 0xFFFEu};
struct lp { uint16_t len; const uint8_t* p; };
/* small structures passed and returned by value travel as literal aggregates ({ i64, i64 }) in the IR */
typedef struct { uint32_t a; uint16_t b; uint16_t c; uint64_t d; } Agg;
static __attribute__((noinline)) Agg agg_make(uint32_t a, uint16_t b, uint64_t d) { Agg s = { a, b, (uint16_t)~b, d }; return s; }
static __attribute__((noinline)) uint64_t agg_sum(Agg s) { return (uint64_t)s.a + s.b + s.c + s.d; }
uint64_t w_selftest(uint8_t* buf)
{
    uint64_t bad = 0;
    buf[0] = 1; buf[1] = 2; buf[2] = 3; buf[3] = 4; buf[4] = 5; buf[5] = 6; buf[6] = 7; buf[7] = 8;
    if (*(uint32_t*)(void*)buf != 0x01020304u) bad |= 1;
    if (*(uint16_t*)(void*)(buf + 2) != 0x0304u) bad |= 2;
    if (*(uint64_t*)(void*)buf != 0x0102030405060708ull) bad |= 4;
    uint32_t x = 0xCAFEBABEu; uint8_t* px = (uint8_t*)&x;
    if (px[0] != 0xCA || px[3] != 0xBE) bad |= 8;
    union { float f; uint32_t u; uint8_t b[4]; } u; u.f = 1.0f;
    if (u.u != 0x3F800000u || u.b[0] != 0x3F || u.b[3] != 0) bad |= 16;
    double d = -2.0; uint8_t db[8]; memcpy(db, &d, 8);
    if (db[0] != 0xC0 || db[7] != 0) bad |= 32;
    if (table32[1] != 0xA1B2C3D4u || ((const uint8_t*)table32)[0] != 1 || ((const uint8_t*)table32)[4] != 0xA1) bad |= 64;
    if (table16[1] != 0xFFFEu || ((const uint8_t*)table16)[2] != 0xFF) bad |= 128;
    struct lp s; s.len = 0x1234; s.p = buf;
    if (((uint8_t*)&s)[0] != 0x12 || s.p[3] != 4 || s.len != 0x1234) bad |= 256;
    uint16_t h = 0x0102; memcpy(buf + 8, &h, 2);
    if (buf[8] != 1 || buf[9] != 2) bad |= 512;
#if __BYTE_ORDER__ != __ORDER_BIG_ENDIAN__
    bad |= 1024;
#endif
    {
        Agg g = agg_make(0x01020304u, 0x0506, 0x1112131415161718ull);
        Agg* pg = (Agg*)(void*)(buf + 16);
        *pg = g;
        if (buf[16] != 1 || buf[19] != 4 || buf[20] != 5 || buf[21] != 6 || buf[22] != 0xFA || buf[24] != 0x11 || buf[31] != 0x18 ||
            agg_sum(*pg) != 0x01020304ull + 0x0506 + 0xFAF9 + 0x1112131415161718ull) bad |= 2048;
    }
    return bad;
}
