#pragma once
#include <stdlib.h>
