#pragma once
#include <stddef.h>
void* malloc(size_t n);
void* calloc(size_t n, size_t m);
void* realloc(void* p, size_t n);
void free(void* p);
void abort(void);
int abs(int x);
long labs(long x);

#ifdef _MSC_VER
/* the byte-swap intrinsics of the Microsoft C runtime, with their Windows prototypes (unsigned long is 32 bits there) */
static inline unsigned short _byteswap_ushort(unsigned short v) { return __builtin_bswap16(v); }
static inline unsigned long _byteswap_ulong(unsigned long v) { return (unsigned long)__builtin_bswap32((unsigned int)v); }
static inline unsigned long long _byteswap_uint64(unsigned long long v) { return __builtin_bswap64(v); }
#endif
