#pragma once
#include <stddef.h>
void* malloc(size_t n);
void* calloc(size_t n, size_t m);
void* realloc(void* p, size_t n);
void free(void* p);
void abort(void);
int abs(int x);
long labs(long x);
