#pragma once
#include <stdint.h>
#define PRIu8 "u"
#define PRIu16 "u"
#define PRIu32 "u"
#define PRIu64 "llu"
#define PRId32 "d"
#define PRId64 "lld"
#define PRIx8 "x"
#define PRIx16 "x"
#define PRIx32 "x"
#define PRIx64 "llx"
