#pragma once
#include <stddef.h>
#include <stdarg.h>
typedef struct _IO_FILE FILE;
extern FILE* stdout; extern FILE* stderr;
int printf(const char* fmt, ...);
int fprintf(FILE* f, const char* fmt, ...);
int snprintf(char* b, size_t n, const char* fmt, ...);
int sprintf(char* b, const char* fmt, ...);
int puts(const char* s);
