#pragma once
#include <stddef.h>
