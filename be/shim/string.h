#pragma once
#include <stddef.h>
void* memcpy(void* dst, const void* src, size_t n);
void* memset(void* dst, int c, size_t n);
void* memmove(void* dst, const void* src, size_t n);
int memcmp(const void* a, const void* b, size_t n);
void* memchr(const void* s, int c, size_t n);
size_t strlen(const char* s);
size_t strnlen(const char* s, size_t n);
char* strncpy(char* dst, const char* src, size_t n);
char* strcpy(char* dst, const char* src);
char* strcat(char* dst, const char* src);
char* strncat(char* dst, const char* src, size_t n);
int strcmp(const char* a, const char* b);
int strncmp(const char* a, const char* b, size_t n);
char* strchr(const char* s, int c);
char* strrchr(const char* s, int c);
char* strstr(const char* h, const char* n);
