#pragma once
#include <stddef.h>
void* memcpy(void* dst, const void* src, size_t n);
void* memset(void* dst, int c, size_t n);
void* memmove(void* dst, const void* src, size_t n);
int memcmp(const void* a, const void* b, size_t n);
size_t strlen(const char* s);
char* strncpy(char* dst, const char* src, size_t n);
