#pragma once
/* the C library's per-thread errno (resolved when the world is linked with the native checker) */
extern int* __errno_location(void);
#define errno (*__errno_location())
#define EPERM 1
#define ENOENT 2
#define EIO 5
#define E2BIG 7
#define EAGAIN 11
#define ENOMEM 12
#define EACCES 13
#define EFAULT 14
#define EBUSY 16
#define EEXIST 17
#define EINVAL 22
#define ENOSPC 28
#define ERANGE 34
#define ENOSYS 38
#define ENODATA 61
#define EPROTO 71
#define EBADMSG 74
#define EOVERFLOW 75
#define EMSGSIZE 90
#define ENOTSUP 95
#define EOPNOTSUPP 95
#define ENOBUFS 105
