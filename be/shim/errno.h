#pragma once
#define EINVAL 22
#define ENOMEM 12
