#!/usr/bin/env python3
"""Run checks against a change that KEEPS the properties (false-alarm hunting).
usage: benigntest.py <outdir> <k> <prop> [check ids...]   (env: SEED_SCR scratch worktree, SEED_LANE_ROOT copy of /verif)
 1. in the scratch worktree at /repo HEAD: patch applies, project builds, 192 tests pass
 2. the given checks (quick) run from the /verif copy with VERIF_REPO pointing at the patched worktree: every one must exit 0
    without a VIOLATION line (exit 0 with 'NOT exhaustive' is acceptable and recorded)
 3. record in /verif/benign/<prop>-b<k>/"""
import json, os, shutil, subprocess, sys
SCR = os.environ.get('SEED_SCR', '/tmp/seedchk/wt')
LANE_ROOT = os.environ.get('SEED_LANE_ROOT', '/verif')
ROOT = '/verif'


def sh(cmd, **kw):
    return subprocess.run(cmd, shell=True, stdout=subprocess.PIPE, stderr=subprocess.STDOUT, text=True, **kw)


def main():
    out, k, prop = sys.argv[1], sys.argv[2], sys.argv[3]
    checks = sys.argv[4:] or [prop]
    patch = os.path.join(out, 'm%s_patch.diff' % k)
    metaf = os.path.join(out, 'm%s_meta.json' % k)
    meta = json.load(open(metaf)) if os.path.exists(metaf) else {}
    head = sh('git -C /repo rev-parse HEAD').stdout.strip()
    sh('git -C %s checkout -q --detach %s; git -C %s checkout -- .; git -C %s clean -fdq' % (SCR, head, SCR, SCR))
    a = sh('git -C %s apply %s' % (SCR, patch))
    if a.returncode:
        print('PATCH DOES NOT APPLY:', a.stdout[-300:]); sys.exit(3)
    b = sh('cd %s && cmake -S . -B _build -G Ninja -DUNIT_TESTING=ON >/dev/null && cmake --build _build 2>&1 | tail -3 && ctest --test-dir _build -j8 2>&1 | tail -4' % SCR)
    tests = '100% tests passed' in b.stdout
    sh('rm -rf %s/_build' % SCR)
    res = {'property': prop, 'kind': meta.get('kind'), 'summary': meta.get('summary'), 'why_the_property_still_holds': meta.get('why_the_property_still_holds'),
           'files_touched': meta.get('files_touched'), 'tests_pass': tests, 'checks': {}}
    print('tests pass=%s' % tests)
    for c in checks:
        r = sh('cd %s && VERIF_REPO=%s ./vcheck %s --tier quick' % (LANE_ROOT, SCR, c))
        keys = [l.strip()[5:] for l in r.stdout.splitlines() if l.strip().startswith('key: ')]
        last = (r.stdout.strip().splitlines() or [''])[-1]
        res['checks'][c] = {'rc': r.returncode, 'violation_keys': keys[:8], 'last_line': last[-300:]}
        print('  check %s: rc=%d violations=%d %s | %s' % (c, r.returncode, len(keys), keys[:3], last[-160:]))
    sh('git -C %s checkout -- .; git -C %s clean -fdq' % (SCR, SCR))
    res['silent'] = all(v['rc'] == 0 and not v['violation_keys'] for v in res['checks'].values())
    d = os.path.join(ROOT, 'benign', '%s-b%s' % (prop, k))
    os.makedirs(d, exist_ok=True)
    shutil.copy(patch, os.path.join(d, 'patch.diff'))
    json.dump(res, open(os.path.join(d, 'meta.json'), 'w'), indent=1)
    print('silent:', res['silent'])


if __name__ == '__main__':
    main()
