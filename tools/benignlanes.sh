#!/bin/sh
# usage: benignlanes.sh <seed-root> <lanes> <id:k:checks> ...
SROOT=$1; LANES=$2; shift 2
for job in "$@"; do echo "$job"; done > /tmp/benignlanes.jobs
for l in $(seq 1 $LANES); do
  ( mkdir -p /tmp/lane$l; rsync -a --delete --exclude build --exclude .git --exclude __pycache__ --exclude replay --exclude seeded --exclude benign /verif/ /tmp/lane$l/verif/
    [ -d /tmp/lane$l/wt ] || git -C /repo worktree add -f --detach /tmp/lane$l/wt HEAD -q
    awk -v l=$l -v n=$LANES 'NR % n == l % n' /tmp/benignlanes.jobs | while IFS=: read id k checks; do
      echo "== $id b$k"; SEED_SCR=/tmp/lane$l/wt SEED_LANE_ROOT=/tmp/lane$l/verif python3 /verif/tools/benigntest.py $SROOT/$id/out $k $id $checks 2>&1 | tail -6 | cut -c1-700
    done ) > /tmp/blane$l.log 2>&1 &
done
wait
cat /tmp/blane*.log
