#!/usr/bin/env python3
"""regenerates MANIFEST.json from the table below (single source for check registration)"""
import json, os
ROOT = os.path.dirname(os.path.dirname(os.path.abspath(__file__)))
TECH = 'bounded exhaustive enumeration (explicit-state exploration of the real implementation against a reference model)'
NOTE_E1 = 'trusted: spec/layouts.json (hand transcription of the wire formats), the bit-addressed reference model/encoders in the checker; run in four worlds (gcc -O2, gcc -O0 = the default CMake build, gcc -O3 -DNDEBUG = CMake Release, clang -O2); inputs outside the stated lattices are not executed'
CHECKS = {
 'C01': ('E1/E2 field explorer', 'every format x field x access path over the H1 buffer lattice and the FV value lattice, plus all 6240 generic descriptor shapes, each real call compared with a bit-addressed reference model', NOTE_E1, TECH),
 'C02': ('E1/E2 field explorer', 'every setter (both paths) over prior-buffer and value lattices (incl. values wider than the field) with whole-object diff against the reference model and read-back through both readers', NOTE_E1, TECH),
 'C03': ('E1/E2 field explorer', 'every header-taking function on buffers of exactly the published header length between PROT_NONE pages (two placements); an instrumented pass (every load/store of the library hooked) checking each access against the header extent at all 8 address residues; sizeof/offsetof/HEADER_LEN facts against the wire length in C and C++', NOTE_E1, TECH),
 'C04': ('E1/E2 field explorer', 'every initialiser over the prior-content lattice (header + trailing bytes): canonical image, untouched surroundings, idempotence', NOTE_E1, TECH),
 'C05': ('E1/E2 field explorer', 'DFS over all operation histories up to depth D (per format, two initial states, all entry points) against a per-buffer model record; two-buffer products; talker traces; fresh-process replay separates hidden state', NOTE_E1, 'explicit-state DFS over operation histories on the real implementation with a reference model per buffer'),
 'C06': ('E1 serialiser explorer', 'both CAN builders (one-shot and separate steps) over lengths x identifiers x variants x payload patterns x prior headers x placements with whole-image diff against ref_can_build, exact-extent buffers between PROT_NONE pages', NOTE_E1, TECH),
 'C07': ('E1 serialiser explorer', 'SetVssPath+SetVssData over address modes x 28 datatype codes x paths x value lattice x prior contents, whole-image diff against the reference encoding on exact-extent buffers', NOTE_E1, TECH),
 'C08': ('E1 serialiser explorer', 'decoding of every reference-encoded message of the C07 lattice at 9 placements, both phases of the length-query protocol, exact-extent destinations, bit-exact comparison', NOTE_E1, TECH),
 'C09': ('E1 serialiser explorer', 'Avtp_Vss_Pad for every length 12..2044 x prior contents x placements with whole-image diff; all 512 length values through the dedicated accessors', NOTE_E1, TECH),
 'C10': ('E1 serialiser explorer', 'pack/count/unpack over 90 string lists x requested counts x destinations with exact-extent source and canary-separated destinations', NOTE_E1, TECH),
 'C11': ('E1/E2 field explorer', 'every invalid-argument combination of the stated lattice through every entry point with whole-object diff (nothing written, no fault, stated return codes)', NOTE_E1, TECH),
 'C12': ('E1/E2 field explorer', 'legacy vs current entry points on identical buffers over the C01/C02 lattices; alias macros; packed structs', NOTE_E1, TECH),
 'C13': ('E1 serialiser explorer', '15 byte-order helpers over all 2^16 values / structured 32- and 64-bit lattices (thorough: all 2^32), memory images, inverses, and the other preprocessor branch compared as functions', 'trusted: the bytewise expectation in the checker; the forced-macro build of the other branch', TECH),
 'C14': ('E5 configuration explorer', 'the case lattices of C01 C02 C04-C10 C12 C13 C17 executed natively and inside an emulated big-endian host (at -O0 and -O1), each against the byte-addressed reference model, with transcripts compared between worlds', 'trusted: clang mips64 front end + be/rewrite.py (bswap on every multi-byte load/store, reversed integer initialisers; refuses unknown IR) as a model of a big-endian host, bound by known-answer self-tests and an identity run of the same pipeline; no big-endian hardware/emulator exists in the sandbox', 'exhaustive enumeration of host-byte-order configurations, each running the bounded case lattices on the real code'),
 'C15': ('E5 configuration explorer', 'the case lattices of C01 C02 C04 C05 C06-C10 C12 C17 executed in all 64 configurations {gcc,clang} x -O0..-O3 x PDU offset 0..7 against the reference model, transcripts compared between worlds, plus a clang -fsanitize=alignment world where every misaligned-access report is a violation', 'trusted: the reference model; x86-64 host does not trap on misalignment, hence the sanitizer world; caller-owned arrays stay naturally aligned', 'exhaustive enumeration of build/placement configurations, each running the bounded case lattices on the real code'),
 'C16': ('E3 schedule explorer', 'every load/store of the library hooked by compiler instrumentation bound to our own runtime: (i) ownership classification of every access of every public function, (ii) all interleavings of 2-3 cooperative threads up to a preemption bound with scheduling points at every hooked non-stack access, per-thread results and buffers compared with the sequential reference; planted-bug self-test; free-running real-ThreadSanitizer complement', 'trusted: clang -fsanitize=thread instrumentation covering every memory access of the library (memcpy/memset renamed to hooked versions), sequential consistency of the explored interleavings; the -O0 build decides', 'stateless model checking of the implementation: preemption-bounded exhaustive schedule exploration (iterative context bounding) under a controlled cooperative scheduler'),
 'C17': ('E1/E2 field explorer', 'every pair of views sharing a field: reads and writes through either view over buffer/value lattices, images compared', NOTE_E1, TECH),
 'C18': ('E4 environment explorer', 'every datagram within k deviations (quick 2, thorough 3) of each well-formed template, alone and followed by a well-formed datagram, delivered to the real main() of all six listeners in every mode through a scripted I/O seam, under ASan+UBSan, in builds with pattern-, zero- and un-initialised locals (outcomes must agree; stale receive-buffer contents must not matter), one forked child per sequence with a hang watchdog', 'trusted: the renamed-I/O seam, clang ASan/UBSan; explores a deviation ball around well-formed traffic, not all datagrams', 'exhaustive enumeration of environment answers (datagram sequences within a deviation bound) against the real programs under a fault-detecting build'),
 'C19': ('E4 environment explorer', 'the real talker main() and the real listener main() coupled through a scripted I/O seam: every frame of the alphabet, all ordered tuples of 2 and 3 frames per packet over a reduced alphabet, two packets in sequence, in all 8 modes; frames out compared with frames in, control header length checked', 'trusted: the renamed-I/O seam (recv/read/write/sendto/poll/socket... answered from a script), clang ASan+UBSan, struct can_frame/canfd_frame images as the kernel delivers them', 'exhaustive enumeration of input histories (frame tuples x modes) through the real example programs under a scripted environment'),
 'C20': ('E5 configuration explorer', 'every header alone, all ordered pairs, the full set in 28 orders (thorough: more rotations and triples) x {C99, C++}, each TU asserting every public integer name against its stand-alone value', 'trusted: gcc/g++ front ends, the header parser that collects names (a name it misses is not asserted)', 'exhaustive enumeration of build configurations (ordered header pairs/sets x language) with generated static assertions'),
}
REASON_TODO = 'check under construction in this round (engine not yet built); see DESIGN.md'


def main():
    mpath = os.path.join(ROOT, 'MANIFEST.json')
    m = json.load(open(mpath))
    m['checks'] = []
    engines = {}
    for pid, (eng, text, note, tech) in sorted(CHECKS.items()):
        engines.setdefault(eng, []).append(pid)
        m['checks'].append({'property_id': pid, 'quick_cmd': './vcheck %s --tier quick' % pid, 'thorough_cmd': './vcheck %s --tier thorough' % pid,
                            'evidence_file': 'evidence/%s.json' % pid, 'replay_cmd_template': './vcheck replay {path}', 'engine': eng,
                            'level_claimed': {'category': 'model_checking', 'text': text, 'design_ref': 'DESIGN.md sections 3-4'},
                            'level_note': note, 'technique': tech})
    paths = {'E4 environment explorer': 'engine/envseam.c, vlib/e4.py', 'E3 schedule explorer': 'engine/explore_sched.c', 'E1/E2 field explorer': 'engine/explore_fields.c', 'E1 serialiser explorer': 'engine/explore_ser.c', 'E5 configuration explorer': 'vlib/c14.py, vlib/c15.py, vlib/c20.py, be/rewrite.py'}
    m['engines'] = [{'name': e, 'path': paths.get(e, 'vlib/'), 'serves_properties': ps, 'kind_free_text': 'bounded exhaustive exploration of the real code'} for e, ps in engines.items()]
    allp = [json.loads(l)['id'] for l in open(os.path.join(ROOT, 'properties.jsonl'))]
    m['not_applicable'] = [{'property_id': p, 'reason': REASON_TODO} for p in allp if p not in CHECKS]
    json.dump(m, open(mpath, 'w'), indent=1)


if __name__ == '__main__':
    main()
