#!/usr/bin/env python3
"""prints the markdown table of seeded changes and the checks that catch them (from seeded/*/meta.json)"""
import glob, json, os
ROOT = os.path.dirname(os.path.dirname(os.path.abspath(__file__)))
rows = []
for f in sorted(glob.glob(os.path.join(ROOT, 'seeded', '*', 'meta.json'))):
    m = json.load(open(f))
    name = os.path.basename(os.path.dirname(f))
    summ = (m.get('summary') or '').replace('|', '/').replace('\n', ' ')
    if len(summ) > 170:
        summ = summ[:167] + '...'
    det = ', '.join(m.get('detected_by') or []) or '**none**'
    miss = ', '.join(c for c, d in (m.get('checks_run') or {}).items() if c not in (m.get('detected_by') or []))
    rows.append('| %s | %s | %s | %s | %s |' % (name, ', '.join(os.path.basename(x) for x in (m.get('files_touched') or [])), summ, det, miss or '-'))
print('| seeded change | file(s) | what it does | caught by | also run, silent (property still holds there) |')
print('|---|---|---|---|---|')
print('\n'.join(rows))
