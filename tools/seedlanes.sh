#!/bin/sh
# usage: seedlanes.sh <tag> <seed-root> <lanes> <id:k:checks> ...   e.g. seedlanes.sh r4 /tmp/seed4 4 C01:1:C01 C01:2:C01
# runs seedtest.py for the given seeds in <lanes> parallel lanes, each with its own scratch worktree and copy of /verif
TAG=$1; SROOT=$2; LANES=$3; shift 3
i=0
for job in "$@"; do echo "$job"; done > /tmp/seedlanes.jobs
B=${LANE_BASE:-0}
for l0 in $(seq 1 $LANES); do l=$((l0 + B))
  ( mkdir -p /tmp/lane$l; rsync -a --delete --exclude build --exclude .git --exclude __pycache__ --exclude replay --exclude seeded /verif/ /tmp/lane$l/verif/
    [ -d /tmp/lane$l/wt ] || git -C /repo worktree add -f --detach /tmp/lane$l/wt HEAD -q
    awk -v l=$l0 -v n=$LANES 'NR % n == l % n' /tmp/seedlanes.jobs | while IFS=: read id k checks; do
      echo "== $id m$k"; SEEDTAG=$TAG SEED_SCR=/tmp/lane$l/wt SEED_LANE_ROOT=/tmp/lane$l/verif python3 /verif/tools/seedtest.py $SROOT/$id/out $k $id $checks 2>&1 | tail -3 | cut -c1-600
    done ) > /tmp/lane$l.log 2>&1 &
done
wait
for l0 in $(seq 1 $LANES); do cat /tmp/lane$((l0 + B)).log; done
