#!/usr/bin/env python3
"""Confirm a seeded defect and run checks against it.
usage: seedtest.py <outdir> <k> <prop> [check ids...]
 1. in a scratch worktree of /repo HEAD: demo passes clean; patch applies; project builds; 192 tests pass; demo fails
 2. apply the patch to /repo, run the given checks (quick), record which report a VIOLATION, undo the patch
 3. keep everything in /verif/seeded/<prop>-m<k>/"""
import glob, json, os, re, shutil, subprocess, sys
SCR = os.environ.get('SEED_SCR', '/tmp/seedchk/wt')
ROOT = '/verif'
# lane mode (several seeds in parallel): the checks run from a copy of /verif against the scratch worktree that holds the
# patch (VERIF_REPO), /repo itself is not touched
LANE_ROOT = os.environ.get('SEED_LANE_ROOT')


def sh(cmd, **kw):
    return subprocess.run(cmd, shell=isinstance(cmd, str), stdout=subprocess.PIPE, stderr=subprocess.STDOUT, text=True, **kw)


def main():
    out, k, prop = sys.argv[1], sys.argv[2], sys.argv[3]
    checks = sys.argv[4:] or [prop]
    patch = os.path.join(out, 'm%s_patch.diff' % k)
    metaf = os.path.join(out, 'm%s_meta.json' % k)
    meta = json.load(open(metaf)) if os.path.exists(metaf) else {}
    res = {'property': prop, 'source': 'independent sub-agent given only the property text', 'summary': meta.get('summary'),
           'needs_to_manifest': meta.get('needs_to_manifest'), 'files_touched': meta.get('files_touched'),
           'clause_broken': meta.get('clause_broken'), 'why_a_systematic_checker_might_miss_it': meta.get('why_a_systematic_checker_might_miss_it')}
    if not os.path.isdir(SCR):
        os.makedirs(os.path.dirname(SCR), exist_ok=True)
        print(sh('git -C /repo worktree add -f --detach %s HEAD' % SCR).stdout[-300:])
    sh('git -C %s reset -q --hard; git -C %s checkout -q --detach %s && git -C %s reset -q --hard && git -C %s clean -fdq -e _build' % (SCR, SCR, sh('git -C /repo rev-parse HEAD').stdout.strip(), SCR, SCR))
    demo = meta.get('demo_cmd') or ''
    shf = os.path.join(out, 'm%s_demo.sh' % k)
    if os.path.exists(shf):
        demo = 'sh %s %s' % (shf, SCR)
    demo = re.sub(r'/tmp/seed\d?/C\d+/wt', SCR, demo)
    if not demo:
        # fall back: comment at top of the demo source
        src = open(os.path.join(out, 'm%s_demo.c' % k)).read()
        print('NO demo_cmd; head of demo:\n', src[:600]); sys.exit(3)
    env = dict(os.environ, REPO=SCR)
    r0 = sh(demo, env=env)
    res['demo_clean_rc'] = r0.returncode
    a = sh('git -C %s apply %s' % (SCR, patch))
    if a.returncode:
        print('PATCH DOES NOT APPLY to current HEAD:', a.stdout); sys.exit(3)
    b = sh('cd %s && cmake -S . -B _build -G Ninja -DUNIT_TESTING=ON >/dev/null && cmake --build _build 2>&1 | tail -3 && ctest --test-dir _build -j8 2>&1 | tail -4' % SCR)
    res['tests_pass'] = '100% tests passed' in b.stdout
    r1 = sh(demo, env=env)
    res['demo_mutant_rc'] = r1.returncode
    res['demo_mutant_output'] = r1.stdout[-400:]
    sh('git -C %s reset -q --hard; git -C %s clean -fdq' % (SCR, SCR))
    print('demo clean rc=%d, mutant rc=%d, tests pass=%s' % (r0.returncode, r1.returncode, res['tests_pass']))
    if r0.returncode != 0 or r1.returncode == 0 or not res['tests_pass']:
        print('NOT CONFIRMED\n', b.stdout[-500:], r0.stdout[-300:]); 
        res['confirmed'] = False
    else:
        res['confirmed'] = True
    # run the checks on /repo with the patch (or, in lane mode, on the scratch worktree with the patch)
    if LANE_ROOT:
        sh('git -C %s reset -q --hard; git -C %s clean -fdq' % (SCR, SCR))
        a = sh('git -C %s apply %s' % (SCR, patch))
        if a.returncode:
            print('PATCH DOES NOT APPLY (second time):', a.stdout[-200:]); sys.exit(3)
    else:
        st = sh('git -C /repo status --porcelain --untracked-files=no').stdout.strip()
        if st:
            print('/repo is not clean:', st); sys.exit(3)
        a = sh('git -C /repo apply %s' % patch)
    det = {}
    try:
        for c in checks:
            r = sh('cd %s && VERIF_REPO=%s ./vcheck %s --tier quick' % (LANE_ROOT, SCR, c)) if LANE_ROOT else sh('cd %s && ./vcheck %s --tier quick' % (ROOT, c))
            v = [l for l in r.stdout.splitlines() if l.startswith('VIOLATION')]
            keys = [l.strip()[5:] for l in r.stdout.splitlines() if l.strip().startswith('key: ')]
            det[c] = {'rc': r.returncode, 'violations': len(v), 'keys': keys[:6]}
            print('  check %s: rc=%d violations=%d %s' % (c, r.returncode, len(v), keys[:3]))
    finally:
        sh('git -C %s reset -q --hard; git -C %s clean -fdq' % (SCR, SCR)) if LANE_ROOT else sh('git -C /repo checkout -- .')
    # restore evidence files changed by running on a mutated tree
    if not LANE_ROOT:
        sh('git -C %s checkout -- evidence' % ROOT)
    res['checks_run'] = det
    res['detected_by'] = [c for c, d in det.items() if d['rc'] == 1 and d['violations'] > 0]
    res['ran'] = 'tools/seedtest.py: scratch worktree build + ctest + demo (clean/mutant), then ./vcheck <id> --tier quick ' + ('from a copy of /verif with VERIF_REPO pointing at the scratch worktree that holds the patch' if LANE_ROOT else 'on /repo with the patch applied, patch undone')
    d = os.path.join(ROOT, 'seeded', '%s-%sm%s' % (prop, os.environ.get('SEEDTAG', ''), k))
    os.makedirs(d, exist_ok=True)
    shutil.copy(patch, os.path.join(d, 'patch.diff'))
    for f in glob.glob(os.path.join(out, 'm%s_demo*' % k)):
        if os.path.isfile(f) and not os.access(f, os.X_OK) or f.endswith(('.c', '.sh')):
            shutil.copy(f, os.path.join(d, os.path.basename(f).replace('m%s_' % k, '')))
    json.dump(res, open(os.path.join(d, 'meta.json'), 'w'), indent=1)
    print('detected_by:', res['detected_by'])


if __name__ == '__main__':
    main()
