#!/usr/bin/env python3
"""Regression over the seeded changes: every change in seeded/ must still be reported by (one of) the check(s) that
reported it when it was stored. Runs in lanes (copies of /verif + scratch worktrees of /repo; /repo is not touched).
usage: regress.py [lanes] [name-filter]"""
import glob, json, os, subprocess, sys
from multiprocessing import Pool
ROOT = '/verif'


def sh(cmd):
    return subprocess.run(cmd, shell=True, stdout=subprocess.PIPE, stderr=subprocess.STDOUT, text=True)


def lane_setup(l):
    sh('mkdir -p /tmp/lane%d; rsync -a --delete --exclude build --exclude .git --exclude __pycache__ --exclude replay --exclude seeded --exclude benign /verif/ /tmp/lane%d/verif/' % (l, l))
    if not os.path.isdir('/tmp/lane%d/wt' % l):
        sh('git -C /repo worktree add -f --detach /tmp/lane%d/wt HEAD -q' % l)


def work(arg):
    l, names = arg
    lane_setup(l)
    wt, vr = '/tmp/lane%d/wt' % l, '/tmp/lane%d/verif' % l
    head = sh('git -C /repo rev-parse HEAD').stdout.strip()
    out = []
    for name in names:
        d = os.path.join(ROOT, 'seeded', name)
        meta = json.load(open(os.path.join(d, 'meta.json')))
        checks = meta.get('detected_by') or []
        if not checks:
            out.append((name, 'not-detected-when-stored', '')); continue
        sh('git -C %s reset -q --hard; git -C %s checkout -q --detach %s; git -C %s reset -q --hard %s; git -C %s clean -fdq' % (wt, wt, head, wt, head, wt))
        a = sh('git -C %s apply %s' % (wt, os.path.join(d, 'patch.diff')))
        if a.returncode:
            a = sh('git -C %s apply -3 %s' % (wt, os.path.join(d, 'patch.diff')))
        if a.returncode:
            out.append((name, 'patch-does-not-apply-to-current-HEAD', a.stdout[-120:].replace('\n', ' '))); continue
        res = 'MISSED'
        for c in checks:
            r = sh('cd %s && VERIF_REPO=%s ./vcheck %s --tier quick' % (vr, wt, c))
            if r.returncode == 1 and 'VIOLATION' in r.stdout:
                res = 'detected by ' + c; break
            if r.returncode not in (0, 1):
                res = 'HARNESS-ERROR in %s: %s' % (c, r.stdout[-200:].replace('\n', ' '))
        out.append((name, res, ''))
        print(name, res, flush=True)
    sh('git -C %s reset -q --hard; git -C %s clean -fdq' % (wt, wt))
    return out


if __name__ == '__main__':
    lanes = int(sys.argv[1]) if len(sys.argv) > 1 else 4
    flt = sys.argv[2] if len(sys.argv) > 2 else ''
    names = sorted(os.path.basename(os.path.dirname(f)) for f in glob.glob(os.path.join(ROOT, 'seeded', '*', 'meta.json')) if flt in f)
    if os.environ.get('REGRESS_NAMES'):
        only = set(open(os.environ['REGRESS_NAMES']).read().split())
        names = [n for n in names if n in only]
    parts = [(l + 1, names[l::lanes]) for l in range(lanes)]
    with Pool(lanes) as p:
        allout = [x for part in p.map(work, parts) for x in part]
    bad = [x for x in allout if not x[1].startswith('detected') and x[1] != 'not-detected-when-stored']
    print('SUMMARY: %d seeds, %d detected, %d not detected when stored, %d problems' % (len(allout), sum(1 for x in allout if x[1].startswith('detected')), sum(1 for x in allout if x[1] == 'not-detected-when-stored'), len(bad)))
    for x in bad:
        print('PROBLEM', x)
