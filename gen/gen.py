#!/usr/bin/env python3
"""Harness generator.

Joins the hand-written spec (spec/layouts.json) with the prototypes and
enumerations found in the *current working tree's* public headers and emits

  <out>/wrap_<Fmt>.c   world-side thunks for one format (includes only that
                       format's header, so header clashes cannot break it)
  <out>/wrap_disp.c    world-side dispatcher (no library header at all)
  <out>/rows_gen.c/.h  native description of the rows (spec data + which
                       access paths exist), used by the checkers

The world ABI uses only uint64_t scalars and byte pointers so that the same
sources can be compiled in any world (native, sanitised, emulated big-endian).
"""
import json, os, re, sys

SPEC = os.path.join(os.path.dirname(os.path.abspath(__file__)), '..', 'spec', 'layouts.json')


def load_spec():
    with open(SPEC) as f:
        spec = json.load(f)
    for fm in spec['formats']:
        fields = []
        for tok in fm['fields'].split():
            m = re.match(r'^(\w+)@(\d+):(\d+)(?:=(\w+))?(?:!(\w+))?$', tok)
            assert m, tok
            name, off, w, acc, enum = m.groups()
            fields.append({'name': name, 'off': int(off), 'w': int(w),
                           'acc': acc or ''.join(p.capitalize() for p in name.split('_')),
                           'enum': enum or fm['eprefix'] + name.upper()})
        fm['flist'] = fields
        # spec self-check: fields disjoint and inside the header
        used = {}
        for f in fields:
            assert f['off'] + f['w'] <= 8 * fm['len'], (fm['name'], f)
            for b in range(f['off'], f['off'] + f['w']):
                assert b not in used, (fm['name'], f['name'], used[b])
                used[b] = f['name']
        assert fm['len'] % 4 == 0
    return spec


def strip_comments(src):
    src = re.sub(r'/\*.*?\*/', ' ', src, flags=re.S)
    src = re.sub(r'//[^\n]*', ' ', src)
    return src


def parse_header(path):
    """returns (protos, enumerators, macros): protos name -> (ret, [(type,name)])"""
    with open(path) as f:
        src = strip_comments(f.read())
    macros = {}
    for m in re.finditer(r'^[ \t]*#[ \t]*define[ \t]+(\w+)(?:[ \t]+(.*))?$', src, flags=re.M):
        macros[m.group(1)] = (m.group(2) or '').strip()
    nopp = re.sub(r'^[ \t]*#.*$', ' ', src, flags=re.M)
    enums = []
    for m in re.finditer(r'enum\s*\w*\s*\{([^}]*)\}', nopp):
        for e in m.group(1).split(','):
            e = e.strip()
            if e:
                enums.append(e.split('=')[0].strip())
    protos = {}
    flat = re.sub(r'\s+', ' ', nopp)
    # a prototype may carry trailing attributes or attribute macros before the semicolon
    for m in re.finditer(r'([A-Za-z_][\w \*]*?[\w\*])\s+\*?\s*(\w+)\s*\(([^(){};]*)\)([^;{}]*);', flat):
        ret, name, params = m.group(1).strip(), m.group(2), m.group(3).strip()
        # 'uint8_t* Avtp_Can_GetPayload(' -> the star may sit on either side
        full = flat[m.start():m.end()]
        if re.search(r'\*\s*' + name + r'\s*\(', full) and not ret.endswith('*'):
            ret += '*'
        if ret.split()[0] in ('typedef', 'return', 'static'):
            if ret.split()[0] != 'static':
                continue
        plist = []
        if params and params != 'void':
            for p in params.split(','):
                p = p.strip()
                mm = re.match(r'^(.*?)(\w+)(\[\])?$', p)
                plist.append(((mm.group(1).strip() + ('*' if mm.group(3) else '')), mm.group(2)))
        protos[name] = (ret, plist)
    return protos, enums, macros


def constant_pool(inc, out):
    import glob, subprocess, concurrent.futures as cf
    hs = sorted(glob.glob(os.path.join(inc, '**', '*.h'), recursive=True))
    vals = {0, 1, 2, 3, 4, 8, 16, 24, 32, 48, 64}

    def one(h):
        protos, enums, macros = parse_header(h)
        names = list(enums) + [k for k, v in macros.items() if re.match(r'^\(?\s*(0[xX][0-9a-fA-F]+|\d+)[uUlL]*\s*\)?$', v)]
        if not names:
            return []
        src = os.path.join(out, 'pool_%s.c' % re.sub(r'\W', '_', os.path.relpath(h, inc)))
        with open(src, 'w') as f:
            f.write('#include <stdio.h>\n#include "%s"\nint main(void){\n' % os.path.relpath(h, inc))
            for n in names:
                f.write('printf("%%llu\\n", (unsigned long long)(%s));\n' % n)
            f.write('return 0;}\n')
        r = subprocess.run(['gcc', '-std=gnu99', '-w', '-I' + inc, src, '-o', src[:-2]], stdout=subprocess.PIPE, stderr=subprocess.PIPE)
        if r.returncode != 0:
            return []
        o = subprocess.run([src[:-2]], stdout=subprocess.PIPE, text=True).stdout
        return [int(x) for x in o.split() if x.isdigit()]
    with cf.ThreadPoolExecutor(16) as ex:
        for lst in ex.map(one, hs):
            vals.update(v for v in lst if v <= 0xFFFF)
    return sorted(vals)


def pick(names, avail):
    if isinstance(names, str):
        names = [names]
    for n in names:
        if n in avail:
            return n
    return None


def main():
    repo, out = sys.argv[1], sys.argv[2]
    os.makedirs(out, exist_ok=True)
    spec = load_spec()
    inc = os.path.join(repo, 'include')
    problems = []      # spec item missing in the headers -> harness build error (exit 2)
    uncovered = []     # header accessor unknown to the spec -> reported, not fatal
    rows_c = []
    disp = {k: [] for k in ('get', 'set', 'getid', 'setid', 'init', 'linit', 'lget', 'lset', 'fact', 'enumv')}
    fmts_meta = []
    for fi, fm in enumerate(spec['formats']):
        hp = os.path.join(inc, fm['header'])
        protos, enums, macros = parse_header(hp)
        P = fm['prefix']
        T = fm['type']
        lenm = pick(fm['len_macro'], macros)
        maxe = pick(fm['max'], enums)
        if lenm is None:
            problems.append('%s: header length macro %s not found' % (fm['name'], fm['len_macro']))
            lenm = '0'
        if maxe is None:
            problems.append('%s: MAX enumerator %s not found' % (fm['name'], fm['max']))
            maxe = '0'
        getf, setf = P + '_GetField', P + '_SetField'
        for fn in (getf, setf):
            if fn not in protos:
                problems.append('%s: %s not declared' % (fm['name'], fn))
        etype = protos[getf][1][1][0] if getf in protos else 'int'
        low = {k.lower(): k for k in protos}
        used_protos = {getf, setf}
        w = []
        w.append('/* generated by gen.py - do not edit */')
        w.append('#include <stdint.h>\n#include <stddef.h>')
        w.append('#include "%s"' % fm['header'])
        # every argument expression of a library call has a side effect (a counter): an entry point that became a macro
        # and expands an argument twice is seen as a count that differs from the number of arguments
        w.append('#ifndef W_TLS\n#define W_TLS\n#endif')
        w.append('extern W_TLS unsigned long w_ev; extern unsigned long w_ev_bad; extern const char* w_ev_name;')
        w.append('#define W_A(x) (w_ev++, (x))')
        w.append('#define W_CHK(n, name) do { if (w_ev != (n)) { w_ev_bad++; w_ev_name = (name); } w_ev = 0; } while (0)')
        N = fm['name']
        g_cases, s_cases, e_cases, g2_cases = [], [], [], []
        fl_meta = []
        for k, f in enumerate(fm['flist']):
            if f['enum'] not in enums:
                problems.append('%s: enumerator %s not in %s' % (N, f['enum'], fm['header']))
                continue
            gname = low.get((P + '_Get' + f['acc']).lower())
            sname = low.get((P + '_Set' + f['acc']).lower())
            hasg = hass = 0
            g_cases.append('    case %d: if (path == 0) { uint64_t r; w_ev = 0; r = %s(W_A((%s*)pdu), W_A(%s)); W_CHK(2, "%s"); return r; }' % (k, getf, T, f['enum'], getf))
            s_cases.append('    case %d: if (path == 0) { w_ev = 0; %s(W_A((%s*)pdu), W_A(%s), W_A(v)); W_CHK(3, "%s"); return; }' % (k, setf, T, f['enum'], setf))
            gbits = sbits = 0
            if gname:
                ret = protos[gname][0]
                g_cases.append('        { uint64_t r; w_ev = 0; r = (uint64_t)%s(W_A((%s*)pdu)); W_CHK(1, "%s"); return r; }' % (gname, T, gname))
                used_protos.add(gname); hasg = 1
            else:
                g_cases.append('        return 0;')
            if sname:
                ptype = protos[sname][1][1][0]
                s_cases.append('        { w_ev = 0; %s(W_A((%s*)pdu), W_A((%s)v)); W_CHK(2, "%s"); return; }' % (sname, T, ptype, sname))
                used_protos.add(sname); hass = 1
            else:
                s_cases.append('        return;')
            e_cases.append('    case %d: return (uint64_t)%s;' % (k, f['enum']))
            call0 = '%s((%s*)pdu, %s)' % (getf, T, f['enum'])
            call1 = ('(uint64_t)%s((%s*)pdu)' % (gname, T)) if gname else '0'
            g2_cases.append('    case %d: if (path == 0) { a = %s; pdu[byteidx] ^= (uint8_t)xorv; b = %s; } else { a = %s; pdu[byteidx] ^= (uint8_t)xorv; b = %s; } break;' % (k, call0, call0, call1, call1))
            fl_meta.append((f, hasg, hass, gname or '', sname or ''))
        w.append('uint64_t w%s_get(uint64_t fld, uint64_t path, uint8_t* pdu) {\n  switch (fld) {' % N)
        w += g_cases
        w.append('  }\n  return 0;\n}')
        w.append('void w%s_set(uint64_t fld, uint64_t path, uint8_t* pdu, uint64_t v) {\n  switch (fld) {' % N)
        w += s_cases
        w.append('  }\n}')
        w.append('/* read; the caller changes one byte of the buffer; read again - all inside one function, so that a getter\n * wrongly declared free of memory dependences (attribute const) shows as a stale second value */')
        w.append('uint64_t w%s_get2(uint64_t fld, uint64_t path, uint8_t* pdu, uint64_t byteidx, uint64_t xorv, uint8_t* out8) {\n  uint64_t a = 0, b = 0;\n  switch (fld) {' % N)
        w += g2_cases
        w.append('  }\n  for (int i = 0; i < 8; i++) out8[i] = (uint8_t)(b >> (8 * (7 - i)));\n  return a;\n}')
        w.append('uint64_t w%s_enumv(uint64_t fld) {\n  switch (fld) {' % N)
        w += e_cases
        w.append('  }\n  return ~0ull;\n}')
        w.append('uint64_t w%s_getid(uint8_t* pdu, uint64_t id) { return %s((%s*)pdu, (%s)(int)(int64_t)id); }' % (N, getf, T, etype))
        w.append('void w%s_setid(uint8_t* pdu, uint64_t id, uint64_t v) { %s((%s*)pdu, (%s)(int)(int64_t)id, v); }' % (N, setf, T, etype))
        # initialiser
        has_init = 0
        if fm['init']:
            fn = fm['init']['fn']
            if fn not in protos:
                problems.append('%s: initialiser %s not declared' % (N, fn))
            else:
                used_protos.add(fn); has_init = 1
                w.append('void w%s_init(uint8_t* pdu) { w_ev = 0; %s(W_A((%s*)pdu)); W_CHK(1, "%s"); }' % (N, fn, T, fn))
        if not has_init:
            w.append('void w%s_init(uint8_t* pdu) { (void)pdu; }' % N)
        # legacy triple
        lg = fm.get('legacy')
        has_l = has_linit = 0
        if lg:
            for fn in (lg['get'], lg['set']) + ((lg['init'],) if lg['init'] else ()):
                if fn not in protos:
                    problems.append('%s: legacy %s not declared' % (N, fn))
            has_l = 1
            used_protos.update([lg['get'], lg['set']])
            vt = lg['valtype']
            gp = protos[lg['get']][1]
            sp = protos[lg['set']][1]
            w.append('''uint64_t w%(N)s_lget(uint8_t* pdu, uint64_t id, uint64_t nullval, uint8_t* out8) {
  %(vt)s val = (%(vt)s)0xA5A5A5A5A5A5A5A5ull;
  w_ev = 0;
  int rc = %(fn)s(W_A((%(pt)s)pdu), W_A((%(et)s)(int)(int64_t)id), W_A(nullval ? (%(vt)s*)0 : &val));
  W_CHK(3, "%(fn)s");
  uint64_t v64 = (uint64_t)val;
  for (int i = 0; i < 8; i++) out8[i] = (uint8_t)(v64 >> (8 * (7 - i)));
  return (uint64_t)(int64_t)rc;
}''' % {'N': N, 'vt': vt, 'fn': lg['get'], 'pt': gp[0][0], 'et': gp[1][0]})
            w.append('''/* the caller's result object at an address chosen by the checker (e.g. in a read-only page) */
uint64_t w%(N)s_lget_at(uint8_t* pdu, uint64_t id, uint8_t* resultloc) {
  return (uint64_t)(int64_t)%(fn)s((%(pt)s)pdu, (%(et)s)(int)(int64_t)id, (%(vt)s*)(void*)resultloc);
}''' % {'N': N, 'vt': vt, 'fn': lg['get'], 'pt': gp[0][0], 'et': gp[1][0]})
            w.append('''uint64_t w%(N)s_lset(uint8_t* pdu, uint64_t id, uint64_t v) {
  w_ev = 0;
  int rc = %(fn)s(W_A((%(pt)s)pdu), W_A((%(et)s)(int)(int64_t)id), W_A((%(vt)s)v));
  W_CHK(3, "%(fn)s");
  return (uint64_t)(int64_t)rc;
}''' % {'N': N, 'vt': sp[2][0], 'fn': lg['set'], 'pt': sp[0][0], 'et': sp[1][0]})
            if lg['init']:
                has_linit = 1
                used_protos.add(lg['init'])
                ip = protos[lg['init']][1]
                if len(ip) == 2:
                    w.append('uint64_t w%s_linit(uint8_t* pdu, uint64_t arg) { w_ev = 0; int rc = %s(W_A((%s)pdu), W_A((%s)arg)); W_CHK(2, "%s"); return (uint64_t)(int64_t)rc; }' % (N, lg['init'], ip[0][0], ip[1][0], lg['init']))
                else:
                    w.append('uint64_t w%s_linit(uint8_t* pdu, uint64_t arg) { (void)arg; w_ev = 0; int rc = %s(W_A((%s)pdu)); W_CHK(1, "%s"); return (uint64_t)(int64_t)rc; }' % (N, lg['init'], ip[0][0], lg['init']))
        if not has_l:
            w.append('uint64_t w%s_lget(uint8_t* pdu, uint64_t id, uint64_t nullval, uint8_t* out8) { (void)pdu; (void)id; (void)nullval; (void)out8; return 0; }' % N)
            w.append('uint64_t w%s_lget_at(uint8_t* pdu, uint64_t id, uint8_t* resultloc) { (void)pdu; (void)id; (void)resultloc; return 0; }' % N)
            w.append('uint64_t w%s_lset(uint8_t* pdu, uint64_t id, uint64_t v) { (void)pdu; (void)id; (void)v; return 0; }' % N)
        if not has_linit:
            w.append('uint64_t w%s_linit(uint8_t* pdu, uint64_t arg) { (void)pdu; (void)arg; return 0; }' % N)
        # facts
        pfn = fm.get('payload_fn')
        if pfn:
            if pfn not in protos:
                problems.append('%s: payload accessor %s not declared' % (N, pfn))
                pfn = None
            else:
                used_protos.add(pfn)
        w.append('''uint64_t w%(N)s_fact(uint64_t k, uint8_t* pdu) {
  switch (k) {
    case 0: return (uint64_t)sizeof(%(T)s);
    case 1: return (uint64_t)offsetof(%(T)s, payload);
    case 2: return (uint64_t)(%(L)s);
    case 3: return (uint64_t)(%(M)s);
    case 4: %(P)s
    case 5: return (uint64_t)__alignof__(%(T)s);
    case 6: return (uint64_t)(3 * %(L)s);            /* the length macro inside an expression (a body without parentheses) */
    case 7: return (uint64_t)(1000 - %(L)s);
  }
  return ~0ull;
}''' % {'N': N, 'T': T, 'L': lenm, 'M': maxe,
        'P': ('return (uint64_t)(%s((%s*)pdu) - pdu);' % (pfn, T)) if pfn else 'return ~0ull;'})
        with open(os.path.join(out, 'wrap_%s.c' % N), 'w') as f:
            f.write('\n'.join(w) + '\n')
        # accessors the spec does not know
        for name in protos:
            if name.startswith(P + '_') and name not in used_protos:
                uncovered.append(name)
            elif name.startswith('avtp_') and name not in used_protos:
                uncovered.append(name)
        fmts_meta.append((fm, fl_meta, has_init, has_l, has_linit, 1 if pfn else 0))

    # dispatcher (world side, no library headers)
    d = ['/* generated by gen.py - do not edit */', '#include <stdint.h>']
    names = [fm['name'] for fm in spec['formats']]
    for n in names:
        d.append('uint64_t w%s_get(uint64_t, uint64_t, uint8_t*); void w%s_set(uint64_t, uint64_t, uint8_t*, uint64_t);' % (n, n))
        d.append('uint64_t w%s_get2(uint64_t, uint64_t, uint8_t*, uint64_t, uint64_t, uint8_t*);' % n)
        d.append('uint64_t w%s_getid(uint8_t*, uint64_t); void w%s_setid(uint8_t*, uint64_t, uint64_t);' % (n, n))
        d.append('void w%s_init(uint8_t*); uint64_t w%s_linit(uint8_t*, uint64_t);' % (n, n))
        d.append('uint64_t w%s_lget(uint8_t*, uint64_t, uint64_t, uint8_t*); uint64_t w%s_lset(uint8_t*, uint64_t, uint64_t);' % (n, n))
        d.append('uint64_t w%s_lget_at(uint8_t*, uint64_t, uint8_t*);' % n)
        d.append('uint64_t w%s_fact(uint64_t, uint8_t*); uint64_t w%s_enumv(uint64_t);' % (n, n))

    def sw(sig, call, void=False):
        d.append(sig + ' {\n  switch (fmt) {')
        for i, n in enumerate(names):
            if void:
                d.append('    case %d: %s; return;' % (i, call % n))
            else:
                d.append('    case %d: return %s;' % (i, call % n))
        d.append('  }\n' + ('' if void else '  return 0;\n') + '}')
    sw('uint64_t w_get(uint64_t fmt, uint64_t fld, uint64_t path, uint8_t* pdu)', 'w%s_get(fld, path, pdu)')
    sw('uint64_t w_get2(uint64_t fmt, uint64_t fld, uint64_t path, uint8_t* pdu, uint64_t byteidx, uint64_t xorv, uint8_t* out8)', 'w%s_get2(fld, path, pdu, byteidx, xorv, out8)')
    sw('void w_set(uint64_t fmt, uint64_t fld, uint64_t path, uint8_t* pdu, uint64_t v)', 'w%s_set(fld, path, pdu, v)', True)
    sw('uint64_t w_getid(uint64_t fmt, uint8_t* pdu, uint64_t id)', 'w%s_getid(pdu, id)')
    sw('void w_setid(uint64_t fmt, uint8_t* pdu, uint64_t id, uint64_t v)', 'w%s_setid(pdu, id, v)', True)
    sw('void w_init(uint64_t fmt, uint8_t* pdu)', 'w%s_init(pdu)', True)
    sw('uint64_t w_linit(uint64_t fmt, uint8_t* pdu, uint64_t arg)', 'w%s_linit(pdu, arg)')
    sw('uint64_t w_lget(uint64_t fmt, uint8_t* pdu, uint64_t id, uint64_t nullval, uint8_t* out8)', 'w%s_lget(pdu, id, nullval, out8)')
    sw('uint64_t w_lset(uint64_t fmt, uint8_t* pdu, uint64_t id, uint64_t v)', 'w%s_lset(pdu, id, v)')
    sw('uint64_t w_lget_at(uint64_t fmt, uint8_t* pdu, uint64_t id, uint8_t* resultloc)', 'w%s_lget_at(pdu, id, resultloc)')
    sw('uint64_t w_fact(uint64_t fmt, uint64_t k, uint8_t* pdu)', 'w%s_fact(k, pdu)')
    sw('uint64_t w_enumv(uint64_t fmt, uint64_t fld)', 'w%s_enumv(fld)')
    with open(os.path.join(out, 'wrap_disp.c'), 'w') as f:
        f.write('\n'.join(d) + '\n')

    # alias / legacy struct facts: one small TU per header
    al = ['/* generated by gen.py - do not edit */', '#include <stdint.h>', '#include <stddef.h>']
    by_hdr = {}
    for i, (hdr, macro, fmt, fld) in enumerate(spec['legacy_aliases']):
        by_hdr.setdefault(hdr, []).append(('alias', i, macro))
    for i, ls in enumerate(spec['legacy_structs']):
        by_hdr.setdefault(ls['header'], []).append(('struct', i, ls))
    ad = ['/* generated */', '#include <stdint.h>']
    acase, scase = [], []
    for hi, (hdr, items) in enumerate(sorted(by_hdr.items())):
        protos, enums, macros = parse_header(os.path.join(inc, hdr))
        t = ['/* generated by gen.py - do not edit */', '#include <stdint.h>', '#include <stddef.h>', '#include "%s"' % hdr]
        t.append('uint64_t walias_%d(uint64_t k) {\n  switch (k) {' % hi)
        for kind, i, x in items:
            if kind == 'alias':
                if x not in macros:
                    problems.append('legacy alias %s not defined in %s' % (x, hdr))
                    continue
                t.append('    case %d: return (uint64_t)(%s);' % (i, x))
                acase.append('    case %d: return walias_%d(k);' % (i, hi))
        t.append('  }\n  return ~0ull;\n}')
        t.append('uint64_t wlstruct_%d(uint64_t k, uint64_t what) {\n  switch (k) {' % hi)
        for kind, i, x in items:
            if kind == 'struct':
                same = ('sizeof(%s)' % x['same_as']) if x['same_as'] else '~0ull'
                t.append('    case %d: return what == 0 ? (uint64_t)sizeof(%s) : what == 1 ? (uint64_t)offsetof(%s, %s) : what == 3 ? (uint64_t)__alignof__(%s) : (uint64_t)%s;'
                         % (i, x['struct'], x['struct'], x['payload_member'], x['struct'], same))
                scase.append('    case %d: return wlstruct_%d(k, what);' % (i, hi))
        t.append('  }\n  return ~0ull;\n}')
        with open(os.path.join(out, 'wrap_legacy_%d.c' % hi), 'w') as f:
            f.write('\n'.join(t) + '\n')
        ad.append('uint64_t walias_%d(uint64_t); uint64_t wlstruct_%d(uint64_t, uint64_t);' % (hi, hi))
    ad.append('uint64_t w_alias(uint64_t k) {\n  switch (k) {')
    ad += acase
    ad.append('  }\n  return ~0ull;\n}')
    ad.append('uint64_t w_lstruct(uint64_t k, uint64_t what) {\n  switch (k) {')
    ad += scase
    ad.append('  }\n  return ~0ull;\n}')
    with open(os.path.join(out, 'wrap_legacy_disp.c'), 'w') as f:
        f.write('\n'.join(ad) + '\n')

    # native rows
    h = ['/* generated by gen.py - do not edit */', '#pragma once', '#include <stdint.h>',
         'typedef struct { const char* name; int off, w, hasg, hass; const char* getter; const char* setter; } RowField;',
         'typedef struct { const char* name; int len, nf; const RowField* f; int has_init; const char* init_hex; int has_legacy, has_linit, linit_arg_byte, has_payload; } RowFmt;',
         'extern const RowFmt g_fmts[]; extern const int g_nfmts;',
         'typedef struct { const char* macro; int fmt, fld; } RowAlias; extern const RowAlias g_aliases[]; extern const int g_naliases;',
         'typedef struct { const char* name; int size, payload_off, has_same; } RowLStruct; extern const RowLStruct g_lstructs[]; extern const int g_nlstructs;',
         'typedef struct { const char* name; int base, view, bfld, vfld; } RowShare; extern const RowShare g_shares[]; extern const int g_nshares;',
         'extern const uint64_t g_pool[]; extern const int g_npool;']
    with open(os.path.join(out, 'rows_gen.h'), 'w') as f:
        f.write('\n'.join(h) + '\n')
    c = ['/* generated by gen.py - do not edit */', '#include "rows_gen.h"']
    for fm, fl_meta, has_init, has_l, has_linit, has_pl in fmts_meta:
        c.append('static RowField f_%s[] = {' % fm['name'])   # not const: the self-test plants a wrong row
        for f, hasg, hass, gn, sn in fl_meta:
            c.append('  {"%s", %d, %d, %d, %d, "%s", "%s"},' % (f['name'], f['off'], f['w'], hasg, hass, gn, sn))
        c.append('};')
    c.append('const RowFmt g_fmts[] = {')
    for fm, fl_meta, has_init, has_l, has_linit, has_pl in fmts_meta:
        lg = fm.get('legacy') or {}
        c.append('  {"%s", %d, %d, f_%s, %d, "%s", %d, %d, %d, %d},' % (
            fm['name'], fm['len'], len(fl_meta), fm['name'], has_init,
            fm['init']['bytes'] if fm['init'] else '', has_l, has_linit, lg.get('init_arg_byte', -1), has_pl))
    c.append('};\nconst int g_nfmts = %d;' % len(fmts_meta))
    fidx = {fm['name']: i for i, fm in enumerate(spec['formats'])}

    def fldidx(fmt, name):
        for k, f in enumerate(spec['formats'][fidx[fmt]]['flist']):
            if f['name'] == name:
                return k
        raise KeyError((fmt, name))
    c.append('const RowAlias g_aliases[] = {')
    for hdr, macro, fmt, fld in spec['legacy_aliases']:
        c.append('  {"%s", %d, %d},' % (macro, fidx[fmt], -1 if fld == '#max' else fldidx(fmt, fld)))
    c.append('};\nconst int g_naliases = %d;' % len(spec['legacy_aliases']))
    c.append('const RowLStruct g_lstructs[] = {')
    for ls in spec['legacy_structs']:
        c.append('  {"%s", %d, %d, %d},' % (ls['struct'], ls['size'], ls['payload_offset'], 1 if ls['same_as'] else 0))
    c.append('};\nconst int g_nlstructs = %d;' % len(spec['legacy_structs']))
    c.append('const RowShare g_shares[] = {')
    ns = 0
    for sv in spec['shared_views']:
        for v in sv['views']:
            for bf, vf in sv['map'].items():
                c.append('  {"%s", %d, %d, %d, %d},' % (sv['name'], fidx[sv['base']], fidx[v], fldidx(sv['base'], bf), fldidx(v, vf)))
                ns += 1
    c.append('};\nconst int g_nshares = %d;' % ns)
    # value pool: every integer constant the public headers name (enumerators, literal-valued macros) - "meaningful"
    # values for the prior contents of other fields (a message type of another format, a format code, a subtype)
    pool = constant_pool(inc, out)
    c.append('const uint64_t g_pool[] = {%s};\nconst int g_npool = %d;' % (', '.join('%dull' % v for v in pool) or '0', len(pool)))
    with open(os.path.join(out, 'rows_gen.c'), 'w') as f:
        f.write('\n'.join(c) + '\n')

    # the dedicated accessors of the pinned public API: each must still be found (and parsed) in the headers
    accf = os.path.join(os.path.dirname(SPEC), 'accessors.json')
    if os.path.exists(accf):
        found = set()
        for fm, fl_meta, *_ in fmts_meta:
            for f, hasg, hass, gn, sn in fl_meta:
                found.update([gn, sn])
        for a in json.load(open(accf)):
            if a not in found:
                problems.append('dedicated accessor %s of the public API is no longer declared (or its prototype can no longer be parsed)' % a)
    with open(os.path.join(out, 'gen_report.json'), 'w') as f:
        json.dump({'problems': problems, 'uncovered': sorted(set(uncovered)),
                   'formats': len(fmts_meta), 'fields': sum(len(x[1]) for x in fmts_meta)}, f, indent=1)
    if problems:
        for p in problems:
            print('GEN-PROBLEM:', p, file=sys.stderr)
        sys.exit(2)


if __name__ == '__main__':
    main()
