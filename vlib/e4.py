"""E4 environment explorer: builds the example programs with the I/O seam and
runs batches of event scripts through their real main()."""
import concurrent.futures as cf
import json, os, re, subprocess, sys
from . import core
from gen.gen import load_spec

RENAMES = ['main=ex_main', 'recv=vt_recv', 'recvfrom=vt_recvfrom', 'poll=vt_poll', 'read=vt_read', 'write=vt_write', 'sendto=vt_sendto', 'socket=vt_socket',
           'bind=vt_bind', 'setsockopt=vt_setsockopt', 'ioctl=vt_ioctl', 'close=vt_close', 'timerfd_create=vt_timerfd_create',
           'timerfd_settime=vt_timerfd_settime', 'clock_gettime=vt_clock_gettime', 'sleep=vt_sleep', 'recvmsg=vt_recvmsg', 'send=vt_send', 'sendmsg=vt_sendmsg',
           'nanosleep=vt_nanosleep', 'usleep=vt_usleep', 'clock_nanosleep=vt_clock_nanosleep', 'getsockopt=vt_getsockopt', 'fcntl=vt_fcntl', 'connect=vt_connect']
SAN = ['-fsanitize=address,undefined', '-fno-sanitize-recover=undefined', '-fno-omit-frame-pointer', '-ftrivial-auto-var-init=pattern']

PROGRAMS = {
    'acf-can-listener': {'src': 'examples/acf-can/acf-can-listener.c', 'extra': ['examples/acf-can/acf-can-common.c'], 'defs': ['-DEX_HAS_CAN_VARIANT']},
    'acf-can-talker': {'src': 'examples/acf-can/acf-can-talker.c', 'extra': ['examples/acf-can/acf-can-common.c'], 'defs': []},
    'acf-vss-talker': {'src': 'examples/acf-vss/acf-vss-talker.c', 'extra': [], 'defs': []},
    'hello-world-listener': {'src': 'examples/hello-world/hello-world-listener.c', 'extra': [], 'defs': []},
    'acf-vss-listener': {'src': 'examples/acf-vss/acf-vss-listener.c', 'extra': [], 'defs': []},
    'cvf-listener': {'src': 'examples/cvf/cvf-listener.c', 'extra': [], 'defs': []},
    'aaf-listener': {'src': 'examples/aaf/aaf-listener.c', 'extra': [], 'defs': []},
    'crf-listener': {'src': 'examples/crf/crf-listener.c', 'extra': [], 'defs': []},
    'toy-listener': {'src': os.path.join(core.ROOT, 'engine', 'ex', 'toy_listener.c'), 'extra': [], 'defs': []},
}


def build_program(bdir, name, init='pattern', extra_flags=()):
    """-> harness executable for one example program"""
    P = PROGRAMS[name]
    d = os.path.join(bdir, name + ('' if init == 'pattern' else '-' + init) + ''.join(re.sub(r'\W', '', f) for f in extra_flags))
    os.makedirs(d, exist_ok=True)
    inc = [*core.lib_flags(), '-I' + os.path.join(core.REPO, 'examples')]
    san = [s.replace('=pattern', '=' + init) for s in SAN]
    if init == 'none':
        san = [x for x in san if 'trivial-auto-var-init' not in x]      # locals keep whatever the stack held: stale data persists between calls
    if init == 'zero':
        san.append('-enable-trivial-auto-var-init-zero-knowing-it-will-be-removed-from-clang')
    # the build without auto-initialised locals is also the one without optimisation (the project's default CMake build)
    base = ['clang', '-std=gnu99', '-O0' if init == 'none' else '-O1', '-g', '-w'] + list(extra_flags) + san + inc
    ren = ['-D' + r for r in RENAMES]
    cmds, objs = [], []
    o = os.path.join(d, 'ex_wrap.o')
    cmds.append(base + ren + P['defs'] + ['-DEX_SOURCE="%s"' % os.path.join(core.REPO, P['src']), '-c', os.path.join(core.ROOT, 'engine', 'ex', 'ex_wrap.c'), '-o', o])
    objs.append(o)
    # the program's other sources: every .c file next to it that has no main() of its own, and everything in examples/common
    import glob as _glob
    extra = []
    if not os.path.isabs(P['src']):
        for c in sorted(_glob.glob(os.path.join(core.REPO, os.path.dirname(P['src']), '*.c'))):
            if os.path.abspath(c) != os.path.abspath(os.path.join(core.REPO, P['src'])) and not re.search(r'\bint\s+main\s*\(', open(c, errors='replace').read()):
                extra.append(c)
    extra += sorted(_glob.glob(os.path.join(core.REPO, 'examples', 'common', '*.c')))
    for s in extra:
        o = os.path.join(d, core.objname(s))
        cmds.append(base + ren + ['-c', s, '-o', o])
        objs.append(o)
    for s in core.repo_sources():
        o = os.path.join(d, core.objname(s))
        cmds.append(base + ['-c', s, '-o', o])
        objs.append(o)
    o = os.path.join(d, 'envseam.o')
    cmds.append(base + ['-c', os.path.join(core.ROOT, 'engine', 'envseam.c'), '-o', o])
    objs.append(o)
    # FD mode of the CAN listener: the pinned tree's --fd option dereferences a null argument at start-up (outside the
    # properties), so the mode variable is set through a preset hook. If a tree no longer has that variable (the options
    # moved into a structure, say), the hook cannot be compiled: then the program's own --fd option is used instead.
    fdmode = 'preset'
    if '-DEX_HAS_CAN_VARIANT' in P['defs']:
        r = core.sh(cmds[0])
        if r.returncode != 0:
            cmds[0] = [x for x in cmds[0] if x != '-DEX_HAS_CAN_VARIANT']
            fdmode = 'option'
    open(os.path.join(d, 'fdmode'), 'w').write(fdmode)
    core.par(cmds, 'example harness ' + name)
    exe = os.path.join(d, 'harness')
    core.link(exe, objs, cc='clang', flags=['-fsanitize=address,undefined', '-lm'])
    return exe


def selftest(bdir):
    """planted-bug self-test of the E4 engine: a toy listener with a trusted length byte must be caught"""
    exe = build_program(bdir, 'toy-listener')
    r = run_batch(exe, [('good', '', '-', ['D04aabbccdd']), ('bad', '', '-', ['D0f' + 'ee' * 20]), ('both', '', '-', ['D0f' + 'ee' * 20, 'D04aabbccdd'])])
    if classify(r['good'][0], r['good'][2]) is not None or 'OUT aa' not in r['good'][1]:
        core.die_infra('E4 self-test: the well-formed toy datagram was not processed: %s' % (r['good'],))
    c = classify(r['bad'][0], r['bad'][2])
    if not c or 'stack-buffer-overflow' not in c:
        core.die_infra('E4 self-test: the planted overflow of the toy listener was not detected: %s' % (r['bad'],))
    r = run_batch(exe, [('grow', '', '-', ['Dx40/1.1.1:0511bbccddee']), ('flat', '', '-', ['Dx40/1.1.1:0411bbccdd'])])
    if 'STACKGROWTH' not in r['grow'][1] or 'STACKGROWTH' in r['flat'][1] or classify(r['flat'][0], r['flat'][2]) is not None:
        core.die_infra('E4 self-test: the planted per-datagram alloca of the toy listener was not reported (or reported without it): %s / %s' % (r['grow'][:2], r['flat'][:2]))
    if r['grow'][1].count('RECV') != 5 or 'OUT 11' not in r['grow'][1] or 'OUT 38' not in r['grow'][1]:
        core.die_infra('E4 self-test: repeated event not delivered/logged as specified: %s' % (r['grow'][1],))
    return c


_FD_OK = {}


def fd_available(exe, args):
    """FD mode of the CAN listener can be entered: through the preset hook, or - when the tree has no such variable any more -
    through the program's own --fd option, provided that option gets the program as far as its receive loop"""
    d = os.path.dirname(exe)
    if d not in _FD_OK:
        mode = open(os.path.join(d, 'fdmode')).read() if os.path.exists(os.path.join(d, 'fdmode')) else 'preset'
        if mode == 'preset':
            _FD_OK[d] = True
        else:
            r = run_batch(exe, [('probe', args, 'fd', [])], _confirm=False)['probe']
            _FD_OK[d] = r[0] == 'ok'
    return _FD_OK[d]


_HANGS = [0]      # scripts that ran into the limit so far in this check run


def run_batch(exe, scripts, limit=2.0, _confirm=True):
    """scripts: list of (id, args, presets, [events]) -> dict id -> (status, effects, report)
    A script that hits the watchdog is run again on its own with five times the limit before it is called a hang
    (the watchdog measures wall-clock time and the machine may be busy)."""
    n = core.NCPU
    chunks = [scripts[i::n] for i in range(n)]
    env = dict(os.environ, ASAN_OPTIONS='detect_leaks=0:exitcode=77:abort_on_error=0:symbolize=1:allocator_may_return_null=1', UBSAN_OPTIONS='print_stacktrace=0')

    fdopt = os.path.exists(os.path.join(os.path.dirname(exe), 'fdmode')) and open(os.path.join(os.path.dirname(exe), 'fdmode')).read() == 'option'

    def one(chunk):
        if not chunk:
            return ''
        inp = ''.join('%s\t%s\t%s\t%s\n' % (i, a + (' --fd' if fdopt and p and 'fd' in p.split(',') and '--fd' not in a.split() else ''), p or '-', ','.join(ev)) for i, a, p, ev in chunk)
        # once the check has seen 64 hangs the verdict is settled: every further batch process gives up at its first one
        p = subprocess.run([exe, '--limit', str(limit if _HANGS[0] < 64 else min(limit, 20.0)), '--maxhang', '1' if _HANGS[0] >= 64 else '8'], input=inp.encode(), stdout=subprocess.PIPE, stderr=subprocess.PIPE, env=env)
        if p.returncode != 0:
            core.die_infra('batch harness died: rc=%s %s' % (p.returncode, p.stderr[-500:].decode('latin-1')))
        return p.stdout.decode('latin-1')
    out = {}
    with cf.ThreadPoolExecutor(n) as ex:
        for o in ex.map(one, chunks):
            for line in o.splitlines():
                f = line.split('\t')
                if len(f) >= 4:
                    out[f[0]] = (f[1], f[2], f[3])
    missing = [s[0] for s in scripts if s[0] not in out]
    if missing:
        core.die_infra('%d scripts produced no result line (first: %s)' % (len(missing), missing[0]))
    if _confirm:
        hung = [s for s in scripts if out[s[0]][0] == 'hang']
        _HANGS[0] += len(hung)
        hung = hung[:16] if _HANGS[0] < 64 else hung[:2]
        if limit > 4:
            hung = []      # a limit this generous is not a matter of a busy machine
        if hung:
            # each on its own process slot (at most two per core at a time), five times the limit
            for k in range(0, len(hung), n):
                part = hung[k:k + n]
                with cf.ThreadPoolExecutor(len(part)) as ex:
                    for sc, r in zip(part, ex.map(lambda sc: run_batch(exe, [sc], limit=limit * 5, _confirm=False)[sc[0]], part)):
                        out[sc[0]] = r
    return out


def classify(status, report):
    """-> None if fine, else a stable description (kind, function)"""
    if status == 'ok':
        return None
    m = re.search(r'AddressSanitizer: ([\w-]+)', report)
    if m:
        kind = m.group(1)
        rw = re.search(r'\b(READ|WRITE) of size', report)
        fn = re.search(r'#0 \S+ in (\w+)', report)
        # the first frame inside the program or library, not an interceptor
        for mm in re.finditer(r'#\d+ \S+ in (\w+)', report):
            if not mm.group(1).startswith(('__asan', '__interceptor', 'memcpy', 'memset', 'printf', 'vprintf', 'strlen', '__sanitizer')):
                fn = mm
                break
        return 'asan:%s%s in %s' % (kind, ':' + rw.group(1) if rw else '', fn.group(1) if fn else '?')
    m = re.search(r'([\w./-]+):(\d+):\d+: runtime error: (.*?)( 0x[0-9a-f]+)?( for type .*)?$', report)
    if m or 'runtime error' in report:
        msg = re.sub(r'0x[0-9a-f]+', 'ADDR', report.split('runtime error:')[1])[:80].strip() if 'runtime error:' in report else '?'
        msg = re.sub(r'-?\d+', 'N', msg)
        f = os.path.basename(m.group(1)) if m else '?'
        return 'ubsan:%s: %s' % (f, msg)
    if status == 'notrun':
        return 'not run: the batch was abandoned after 8 scripts did not return within the limit'
    if status.startswith('returned'):
        return 'receive loop terminated by the datagram (main %s)' % status
    return status


# ---------------------------------------------------------------- reference encoders (bit level, from the spec)
SPEC = None


def spec():
    global SPEC
    if SPEC is None:
        SPEC = {f['name']: f for f in load_spec()['formats']}
    return SPEC


def setf(buf, fmt, field, v, base=0):
    for f in spec()[fmt]['flist']:
        if f['name'] == field:
            off, w = f['off'], f['w']
            v &= (1 << w) - 1
            for i in range(w):
                k = base * 8 + off + i
                bit = (v >> (w - 1 - i)) & 1
                if bit:
                    buf[k >> 3] |= 1 << (7 - (k & 7))
                else:
                    buf[k >> 3] &= ~(1 << (7 - (k & 7))) & 0xFF
            return
    raise KeyError(field)


def getf(buf, fmt, field, base=0):
    for f in spec()[fmt]['flist']:
        if f['name'] == field:
            v = 0
            for i in range(f['w']):
                k = base * 8 + f['off'] + i
                v = (v << 1) | ((buf[k >> 3] >> (7 - (k & 7))) & 1)
            return v
    raise KeyError(field)


def hdr(fmt):
    F = spec()[fmt]
    b = bytearray(F['len'])
    if F['init']:
        ib = bytes.fromhex(F['init']['bytes'])
        b[:len(ib)] = ib
    return b


def control(cf, payload, udp, seq=0, data_len=None):
    """[udp seq] + TSCF/NTSCF header + payload"""
    h = hdr('Tscf' if cf == 'tscf' else 'Ntscf')
    n = len(payload) if data_len is None else data_len
    if cf == 'tscf':
        setf(h, 'Tscf', 'stream_id', 0xAABBCCDDEEFF0001)
        setf(h, 'Tscf', 'sequence_num', seq)
        setf(h, 'Tscf', 'stream_data_length', n)
    else:
        setf(h, 'Ntscf', 'stream_id', 0xAABBCCDDEEFF0001)
        setf(h, 'Ntscf', 'sequence_num', seq)
        setf(h, 'Ntscf', 'ntscf_data_length', n)
    out = bytearray()
    if udp:
        out += (seq).to_bytes(4, 'big')
    return out + h + payload


def can_msg(can_id, data, eff=None, rtr=0, fdf=0, brs=0, esi=0, bus=0, ts=0x0102030405060708):
    h = hdr('Can')
    pad = (4 - len(data) % 4) % 4
    setf(h, 'Can', 'acf_msg_length', (16 + len(data) + pad) // 4)
    setf(h, 'Can', 'pad', pad)
    setf(h, 'Can', 'mtv', 1)
    setf(h, 'Can', 'rtr', rtr)
    setf(h, 'Can', 'eff', (can_id > 0x7FF) if eff is None else eff)
    setf(h, 'Can', 'brs', brs); setf(h, 'Can', 'fdf', fdf); setf(h, 'Can', 'esi', esi)
    setf(h, 'Can', 'can_bus_id', bus)
    setf(h, 'Can', 'message_timestamp', ts)
    setf(h, 'Can', 'can_identifier', can_id)
    return h + bytes(data) + bytes(pad)
