"""An ILP32 world (int, long, pointers and size_t 32 bits wide; 64-bit integers aligned to 4 bytes; x87 floating
point): this sandbox has no 32-bit C library, so the explorer, the thunks and the library are compiled with
gcc -m32 -ffreestanding and linked against the minimal runtime in ilp32/libc.c (system calls through int 0x80).
The result is an ordinary explorer executable - same command line, same output - whose every pointer and size_t
computation in the library runs as on a 32-bit target. The build refuses to go on unless the world reports
int=4 long=4 pointer=4."""
import glob, os, subprocess
from . import core

NOMACRO = ['-U__BYTE_ORDER__', '-U__ORDER_LITTLE_ENDIAN__', '-U__ORDER_BIG_ENDIAN__', '-U__ORDER_PDP_ENDIAN__', '-Wno-builtin-macro-redefined']


def gcc_include():
    return core.sh(['gcc', '-print-file-name=include']).stdout.strip()


def build(b, gdir, engine_srcs, name, opt='-O2', world_srcs=('wrap_generic.c',), with_bo=False):
    d = os.path.join(b, 'ilp32' + opt)
    os.makedirs(d, exist_ok=True)
    I = os.path.join(core.ROOT, 'ilp32')
    base = ['gcc', '-m32', '-march=i686', '-std=gnu99', '-ffreestanding', '-nostdinc', '-fno-stack-protector', '-fno-pie', '-w',
            '-isystem', gcc_include(), '-idirafter', os.path.join(I, 'include')]
    inc_w = [*core.lib_flags(), '-I' + os.path.join(core.ROOT, 'world')]
    inc_n = ['-I' + gdir, '-I' + os.path.join(core.ROOT, 'engine'), '-I' + os.path.join(core.ROOT, 'world')]
    cmds, objs = [], []

    def add(src, flags, tag=''):
        o = os.path.join(d, core.objname(src)[:-2] + tag + '.o')
        cmds.append(base + flags + ['-c', src, '-o', o])
        objs.append(o)
    # the world: library + thunks (the target's default floating-point unit: x87)
    for s in core.repo_sources() + sorted(glob.glob(os.path.join(gdir, 'wrap_*.c'))) + [os.path.join(core.ROOT, 'world', w) for w in world_srcs]:
        add(s, [opt] + inc_w)
    if with_bo:
        bo = os.path.join(core.ROOT, 'world', 'wrap_bo.c')
        add(bo, [opt] + inc_w + ['-DW_BO=w_bo2', '-DW_FORCE_BIG', '-Wno-builtin-macro-redefined'], '_bo2')
        add(bo, [opt] + inc_w + ['-DW_BO=w_bo3'] + NOMACRO, '_bo3')
    # the checker (its own arithmetic in SSE registers so that the reference model is not subject to x87 effects)
    for s in list(engine_srcs) + [os.path.join(gdir, 'rows_gen.c')]:
        if not os.path.isabs(s):
            s = os.path.join(core.ROOT, 'engine', s)
        add(s, ['-O2', '-msse2', '-mfpmath=sse'] + inc_n)
    add(os.path.join(I, 'libc.c'), ['-O1'])
    core.par(cmds, 'ILP32 world (freestanding)', soft=True)
    exe = os.path.join(b, name + '-ilp32')
    r = core.sh(['gcc', '-m32', '-nostdlib', '-static', '-no-pie', '-o', exe] + objs)
    if r.returncode != 0:
        core.die_infra('ILP32 link failed: ' + r.stderr[-3000:])
    out = subprocess.run([exe, '--worldinfo'], stdout=subprocess.PIPE, text=True).stdout.strip()
    if not out.startswith('model=444 '):
        core.die_infra('the ILP32 world does not have the intended data model: ' + out)
    return exe
