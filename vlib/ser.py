"""E1 checks on the hand-written serialisers: C06 C07 C08 C09 C10 C13."""
import os, subprocess, time
from . import core
from .fields import make_replayer

RULES = {
 'C06': ('{full, brief} x {one-shot builder, separate steps} x payload length 0..64 (thorough: every length the 9-bit quadlet count can express) x {classic, FD} x 72 identifiers (0,1,0x7FF,0x800,2^29-1,2^29,2^31,2^32-1, one-hot x32, one-cold x32) x 4 payload patterns x 5 prior headers x 2 prior pad/trailing fills x 2 placements (message flush against a PROT_NONE page / 64 trailing canary bytes); whole image vs ref_can_build, return value, payload length read-back (0..64), payload accessor',
         {'lengths': 'quick 0..64; thorough 0..2028 (full) / 0..2036 (brief)', 'identifiers': 72}),
 'C07': ('address mode {0,1,2,3} x 28 datatype codes (24 valid + 0x0C,0x7F,0x8C,0xFF) x paths (interop lengths 0..9,13,255,256,1000 / 4 static ids) x value lattice per type (integers 0,1,-1,min,max,0x0102..; floats +-0,1,+-inf,qNaN,sNaN,denormal,max; element counts 0,1,2,3,7,8,max<=65535 bytes) x 4 prior backgrounds x 2 placements; SetVssPath+SetVssData image vs reference encoding, exact-extent buffers',
         {'big_values': 'quick: 64 KiB values with 3 paths and 2 backgrounds; thorough: all'}),
 'C08': ('every message of the C07 lattice (valid modes/datatypes) produced by the reference encoder, placed flush against a PROT_NONE page and at offsets 0..7 of a 16-byte boundary: CalcVssPathLength, GetVssPath, GetVssData (scalars; variable-length: null-destination length query, then exact-extent destination before a PROT_NONE page); bit-exact comparison, message unchanged',
         {'placements': 9}),
 'C09': ('every vss_length 12..2044 x prior contents {00,FF,A5,incrementing} x 2 placements (exactly round-up(length,4) bytes before a PROT_NONE page / 64 trailing canary bytes) x message start at a 16-byte boundary + {0,1,2,3}; all 512 length values through the dedicated and generic accessors on 4 backgrounds, and every ordered pair of length values written one after the other; the real acf-vss-talker main() through the I/O seam in its 4 modes (pattern-initialised and uninitialised locals): every packet sent carries a correctly finalised message', {}),
 'C10': ('90 string lists (all lists of 0..3 strings over lengths {0,1,2,5}; 256 empty; 300 one-byte; one of 65533 bytes; 255/256 mixed) x requested counts {0,n-1,n,n+1,n+5} x {null, exact-extent} destinations; pack into exactly data_length bytes before a PROT_NONE page, count, unpack', {}),
 'C13': ('15 helpers x {all 2^16 values; 32/64-bit: one-hot, one-cold, two-hot, every ordered pair of byte positions x 65536 contents x 3 backgrounds; thorough: all 2^32 values for the 32-bit helpers}; memory image, to-host inverse, involution, and the helper set of the other preprocessor branch compared as functions (mirror image)', {}),
}
ASSUME = ['nine worlds: gcc -O2 -funsigned-char -march=x86-64-v3 with the BSD/newlib endian constants defined, and an ILP32 one (gcc -m32, freestanding, own minimal C runtime) and gcc -O2, gcc -O0 (the project\'s default CMake build has no optimisation flag), gcc -O3 -DNDEBUG (CMake Release), clang -O2, gcc -O2 without predefined byte-order macros, gcc -O2 -fshort-enums and clang -O1 with a 32-bit long (LLP64 data model)', 'the reference encoders follow acf-vss.md / IEEE 1722-2016 literally (DESIGN appendix A/B)', 'other compilers, optimisation levels, placements and host byte orders are C14/C15',
          'inputs outside the stated lattices are not executed']


def build(prop, opt='-O2', fresh=True, defs=(), cc='gcc', tag='', caller_defs=(), soft=False):
    b = core.fresh_dir(os.path.join(core.ROOT, 'build', prop)) if fresh else os.path.join(core.ROOT, 'build', prop)
    g = os.path.join(b, 'gen')
    core.run_gen(g)
    wobjs = core.build_world(os.path.join(b, 'world' + opt + tag + ('' if cc == 'gcc' else '-' + cc)), g, cc=cc, cflags=(opt, '-g'), world_srcs=['wrap_generic.c', 'wrap_ser.c', 'wrap_bo.c'], defines=defs, caller_defs=caller_defs, soft=soft)
    # the other preprocessor branch of Byteorder.h, as a second set of functions
    o2 = os.path.join(b, 'world' + opt + tag + ('' if cc == 'gcc' else '-' + cc), 'wrap_bo2.o')
    o3 = os.path.join(b, 'world' + opt + tag + ('' if cc == 'gcc' else '-' + cc), 'wrap_bo3.o')
    core.par([[cc, '-std=gnu99', opt, '-g', *core.lib_flags(), '-DW_BO=w_bo2', '-DW_FORCE_BIG', '-Wno-builtin-macro-redefined',
               '-c', os.path.join(core.ROOT, 'world', 'wrap_bo.c'), '-o', o2],
              # a toolchain that does not predefine the byte-order macros (old gcc, some embedded compilers): little-endian host
              [cc, '-std=gnu99', opt, '-g', *core.lib_flags(), '-DW_BO=w_bo3', '-U__BYTE_ORDER__', '-U__ORDER_LITTLE_ENDIAN__', '-U__ORDER_BIG_ENDIAN__',
               '-U__ORDER_PDP_ENDIAN__', '-Wno-builtin-macro-redefined', '-c', os.path.join(core.ROOT, 'world', 'wrap_bo.c'), '-o', o3]])
    # ... and the helpers in a translation unit that included the platform's own byte-order headers first
    o4 = os.path.join(b, 'world' + opt + tag + ('' if cc == 'gcc' else '-' + cc), 'wrap_bo4.o')
    core.par([[cc, '-std=gnu99', opt, '-g'] + list(defs) + [*core.lib_flags(), '-I' + os.path.join(core.ROOT, 'world'), '-DW_BO=w_bo4', '-D_GNU_SOURCE', '-include', 'byteswap.h', '-include', 'endian.h',
               '-include', 'arpa/inet.h', '-include', 'sys/param.h', '-include', 'netinet/in.h', '-c', os.path.join(core.ROOT, 'world', 'wrap_bo.c'), '-o', o4]])
    nobjs = core.build_native(os.path.join(b, 'native'), g, ['common.c', 'explore_ser.c'])
    return core.link(os.path.join(b, 'explore_ser' + opt + tag + ('' if cc == 'gcc' else cc)), nobjs + wobjs + [o2, o3, o4])


def vss_talker_finalisation(res, bdir, npk):
    """C09 at its call site in the example talker: the real main() of acf-vss-talker run through the I/O seam (E4) in
    its four modes, with pattern-initialised and with uninitialised locals; every packet it sends must carry a VSS
    message finalised as the property says (length field, pad field, zero pad bytes, nothing behind them)."""
    from . import e4
    n = 0
    for init in ('pattern', 'none'):
        exe = e4.build_program(bdir, 'acf-vss-talker', init=init)
        modes = [('ntscf/udp', '-u 10.0.0.2:17220', 1, 0), ('tscf/udp', '-t -u 10.0.0.2:17220', 1, 1), ('ntscf/raw', 'eth0 aa:bb:cc:dd:ee:ff', 0, 0), ('tscf/raw', '-t eth0 aa:bb:cc:dd:ee:ff', 0, 1)]
        # environment answers for sending: every send succeeds; or the 2nd / 3rd send is interrupted by a signal (EINTR,
        # nothing left the host) - whatever the program does then, every datagram it does send must be finalised
        modes = modes + [(m[0] + ', send %d interrupted' % k, m[1], m[2], m[3]) for m in modes for k in (2, 3)]
        r = e4.run_batch(exe, [(m[0], m[1], 'sleeps=%d' % npk + (',sendint=' + m[0].split('send ')[1].split()[0] if 'interrupted' in m[0] else ''), []) for m in modes])
        for label, args, udp, tscf in modes:
            st, eff, rep = r[label]
            cls = e4.classify(st, rep)
            if 'interrupted' in label and 'SENDINT' not in eff and not cls:
                core.die_infra('the send seam did not deliver the interruption (%s)' % label)
            if cls and 'interrupted' in label and st.startswith('returned') and not rep.strip():
                cls = None      # the program may give up after a failed send (exit status is its own business)
            if cls:
                res.viol[('C09', 'acf-vss-talker: ' + cls)] = {'count': 1, 'case': 'C09:9:0:0:0:0:0:0', 'detail': 'mode %s (%s build): %s' % (label, init, rep[:300] or st), 'tag': 'talker'}
                continue
            pkts = [bytes.fromhex(x[4:]) for x in eff.split(';') if x.startswith('PKT ')]
            if len(pkts) < npk and 'interrupted' not in label:
                res.viol[('C09', 'acf-vss-talker: sends fewer packets than its loop ran')] = {'count': 1, 'case': 'C09:9:0:0:0:0:0:0', 'detail': 'mode %s: %d packets' % (label, len(pkts)), 'tag': 'talker'}
            for p in pkts:
                n += 1
                off, hl = (4 if udp else 0), (24 if tscf else 12)
                acf = p[off + hl:]
                what = None
                if len(acf) < 14:
                    what = 'message shorter than a VSS header'
                else:
                    q, pad = e4.getf(acf, 'Vss', 'acf_msg_length'), e4.getf(acf, 'Vss', 'pad')
                    plen = int.from_bytes(acf[12:14], 'big')
                    content = 12 + 2 + plen + 4          # header, path length, path, one float
                    ann = e4.getf(p, 'Tscf', 'stream_data_length', off) if tscf else e4.getf(p, 'Ntscf', 'ntscf_data_length', off)
                    if q != (content + 3) // 4:
                        what = 'length field %d quadlets for a %d-byte message' % (q, content)
                    elif pad != 4 * q - content:
                        what = 'pad field %d, %d bytes were added' % (pad, 4 * q - content)
                    elif len(acf) != 4 * q:
                        what = '%d bytes follow the control header, the message announces %d' % (len(acf), 4 * q)
                    elif any(acf[content:]):
                        what = 'pad bytes not zero: %s' % acf[content:].hex()
                    elif ann != len(acf):
                        what = 'control header announces %d bytes, %d follow' % (ann, len(acf))
                if what:
                    e = res.viol.setdefault(('C09', 'acf-vss-talker: message on the wire not finalised: ' + what.split(':')[0].split(' for ')[0]), {'count': 0, 'case': 'C09:9:0:0:0:0:0:0', 'detail': 'mode %s (%s build): %s; packet %s' % (label, init, what, p.hex()), 'tag': 'talker'})
                    e['count'] += 1
    res.counters['cases'] = res.counters.get('cases', 0) + n
    res.counters['transitions'] = res.counters.get('transitions', 0) + n
    return n


def run(prop, tier):
    t0 = time.time()
    exe = build(prop)
    planted = core.selftest(exe, 'the serialiser explorer (wrong reference byte)')
    res = core.run_slices(exe, ['--suite', prop, '--tier', tier], timeout=1500 if tier == 'thorough' else 600)
    # the project's own default build has no optimisation flag: the same lattice in a gcc -O0 world
    exe0 = build(prop, '-O0', fresh=False)
    res = core.run_slices(exe0, ['--suite', prop, '--tier', tier], timeout=1500 if tier == 'thorough' else 600, result=res, tag='-O0')
    exe3 = build(prop, '-O3', fresh=False, defs=('-DNDEBUG',))
    res = core.run_slices(exe3, ['--suite', prop, '--tier', tier], timeout=1500 if tier == 'thorough' else 600, result=res, tag='-O3 -DNDEBUG')
    if prop in ('C07', 'C08'):
        # x87 floating-point code generation (the default of 32-bit x86 compilers): loads/stores through float lvalues quiet signalling NaNs
        exe87 = build(prop, '-O0', fresh=False, defs=('-mfpmath=387',), tag='-x87')
        res = core.run_slices(exe87, ['--suite', prop, '--tier', tier], timeout=600, result=res, tag='-O0 -mfpmath=387')
    exec_ = build(prop, '-O2', fresh=False, cc='clang')
    res = core.run_slices(exec_, ['--suite', prop, '--tier', tier], timeout=1500 if tier == 'thorough' else 600, result=res, tag='clang -O2')
    res = core.run_slices(exe, ['--suite', prop, '--tier', 'quick' if tier == 'thorough' else tier, '--callmode', '1'], timeout=900, result=res, tag='calls through (name)(...)')
    try:
        exeu = build(prop, '-O2', fresh=False, tag='-untyped', caller_defs=('-DW_UNTYPED',), soft=True)
        res = core.run_slices(exeu, ['--suite', prop, '--tier', 'quick' if tier == 'thorough' else tier], timeout=900, result=res, tag='pointer arguments spelled as untyped sums')
    except core.WorldUnavailable as e:
        res.incomplete.append('world left out: ' + str(e))
    # configuration switches of the public headers (names a header tests that nothing defines): callers compiled with each
    for pb in core.platform_branches():
        res.incomplete.append('code behind the platform macro %s is compiled in no world of this sandbox' % pb)
    for sw in core.header_switches():
        try:
            exes = build(prop, '-O2', fresh=False, tag='-sw-' + sw, caller_defs=('-D%s=1' % sw,), soft=True)
            res = core.run_slices(exes, ['--suite', prop, '--tier', 'quick' if tier == 'thorough' else tier], timeout=900, result=res, tag='callers compiled with -D%s' % sw)
            res.notes['header switch ' + sw] = 'explored (callers compiled with -D%s=1)' % sw
        except core.WorldUnavailable as e:
            res.incomplete.append('world left out: ' + str(e))
    NOMACRO = ('-U__BYTE_ORDER__', '-U__ORDER_LITTLE_ENDIAN__', '-U__ORDER_BIG_ENDIAN__', '-U__ORDER_PDP_ENDIAN__', '-Wno-builtin-macro-redefined')
    exem = build(prop, '-O2', fresh=False, defs=NOMACRO, tag='-nomacro')
    res = core.run_slices(exem, ['--suite', prop, '--tier', tier], timeout=1500 if tier == 'thorough' else 600, result=res, tag='gcc -O2, byte-order macros undefined')
    exee = build(prop, '-O2', fresh=False, defs=('-fshort-enums',), tag='-shortenums')
    res = core.run_slices(exee, ['--suite', prop, '--tier', tier], timeout=1500 if tier == 'thorough' else 600, result=res, tag='gcc -O2 -fshort-enums')
    EXOTIC = ('-funsigned-char', '-march=x86-64-v3', '-D_LITTLE_ENDIAN=1234', '-D_BIG_ENDIAN=4321', '-D_PDP_ENDIAN=3412', '-D_BYTE_ORDER=_LITTLE_ENDIAN')
    exex = build(prop, '-O2', fresh=False, defs=EXOTIC, tag='-exotic')
    res = core.run_slices(exex, ['--suite', prop, '--tier', tier], timeout=1500 if tier == 'thorough' else 600, result=res, tag='gcc -O2 -funsigned-char -march=x86-64-v3, BSD endian constants defined')
    # a host whose long is 32 bits wide (LLP64 data model)
    from . import llp64
    bdir = os.path.join(core.ROOT, 'build', prop)
    try:
        exel = llp64.build(bdir, os.path.join(bdir, 'gen'), core.build_native(os.path.join(bdir, 'native'), os.path.join(bdir, 'gen'), ['common.c', 'explore_ser.c']), 'explore_ser')
        res = core.run_slices(exel, ['--suite', prop, '--tier', tier if prop in ('C06', 'C09', 'C10') else 'quick' if tier == 'thorough' else 'lite'], timeout=1500 if tier == 'thorough' else 600, result=res, tag='llp64 (32-bit long)')
    except core.WorldUnavailable as e:
        res.incomplete.append('world left out: ' + str(e))
    if prop == 'C08':
        # AddressSanitizer world: library and thunks instrumented (recover mode), the bytes behind each message poisoned during
        # the decoding calls - a read past the message that stays inside the page is seen here and nowhere else
        b_ = os.path.join(core.ROOT, 'build', prop)
        g_ = os.path.join(b_, 'gen')
        wasan = core.build_world(os.path.join(b_, 'world-asan'), g_, cc='clang', cflags=('-O1', '-g', '-fsanitize=address', '-fsanitize-recover=address', '-fno-omit-frame-pointer'),
                                 world_srcs=['wrap_generic.c', 'wrap_ser.c', 'wrap_bo.c'])
        wd_ = os.path.join(b_, 'world-asan')
        extra = []
        for nm, dd in (('wrap_bo2', ['-DW_BO=w_bo2', '-DW_FORCE_BIG', '-Wno-builtin-macro-redefined']),):
            o_ = os.path.join(wd_, nm + '.o')
            core.par([['clang', '-std=gnu99', '-O1', *core.lib_flags(), '-I' + os.path.join(core.ROOT, 'world')] + dd + ['-c', os.path.join(core.ROOT, 'world', 'wrap_bo.c'), '-o', o_]])
            extra.append(o_)
        exea = core.link(os.path.join(b_, 'explore_ser-asan'), core.build_native(os.path.join(b_, 'native'), g_, ['common.c', 'explore_ser.c']) + wasan + extra, cc='clang', flags=['-fsanitize=address'])
        envA = dict(os.environ, ASAN_OPTIONS='halt_on_error=0:detect_leaks=0:handle_segv=0:handle_sigbus=0:handle_abort=0:allow_user_segv_handler=1:detect_stack_use_after_return=0:print_summary=0')
        res = core.run_slices(exea, ['--suite', prop, '--tier', 'lite' if tier == 'quick' else 'quick'], timeout=900, env=envA, result=res, tag='AddressSanitizer world (clang -O1)')
    if prop == 'C09':
        # the message need not start at a multiple of four (it follows a 14-byte Ethernet header in a frame buffer)
        for off in (1, 2, 3):
            res = core.run_slices(exe, ['--suite', prop, '--tier', tier, '--off', str(off)], timeout=600, result=res, tag='message at a 16-byte boundary + %d' % off)
        vss_talker_finalisation(res, os.path.join(core.ROOT, 'build', prop), 8 if tier == 'quick' else 300)
    # an ILP32 host: pointers, size_t and long 32 bits wide, 64-bit integers aligned to four bytes, x87 arithmetic
    from . import ilp32
    try:
        exei = ilp32.build(bdir, os.path.join(bdir, 'gen'), ['common.c', 'explore_ser.c'], 'explore_ser', world_srcs=('wrap_generic.c', 'wrap_ser.c', 'wrap_bo.c'), with_bo=True)
        res = core.run_slices(exei, ['--suite', prop, '--tier', 'quick' if prop == 'C13' else tier], timeout=1500 if tier == 'thorough' else 600, result=res, tag='ilp32 (gcc -m32, freestanding)')
    except core.WorldUnavailable as e:
        res.incomplete.append('world left out: ' + str(e))
    if prop == 'C13':
        # the helpers on a host that really stores the most significant byte first (the emulated big-endian world of C14):
        # a swap written in terms of the object's bytes is only a swap on one of the two kinds of host
        from . import c14
        objs = c14.be_objects(os.path.join(bdir, 'world-be-O1'), os.path.join(bdir, 'gen'), '-O1')      # (hard: the mirror clause needs this world)
        exeb = core.link(os.path.join(bdir, 'explore_ser-be'), core.build_native(os.path.join(bdir, 'native'), os.path.join(bdir, 'gen'), ['common.c', 'explore_ser.c']) + objs, cc='clang')
        if subprocess.run([exeb, '--worldinfo'], stdout=subprocess.PIPE, text=True).stdout.strip().split()[-1] != 'big=1':
            core.die_infra('the emulated big-endian world does not report big-endian storage')
        res = core.run_slices(exeb, ['--suite', prop, '--tier', 'quick'], timeout=900, result=res, tag='emulated big-endian host')
    rule, bounds = RULES[prop]
    core.finish(prop, tier, t0, res, rule=rule, bounds=bounds, assumptions=ASSUME,
                recipe={'engine': 'ser', 'suite': prop, 'tier': tier}, replayer=make_replayer(exe, tier),
                extra_cov={'planted_bug_selftest': 'reference image wrong in one payload byte: %d mismatches reported, as required' % planted})


def replay(prop, case):
    exe = build(prop)
    return subprocess.run([exe, '--tier', os.environ.get('VERIF_REPLAY_TIER', 'quick'), '--case', case]).returncode
