"""C14 (E5): the case lattices of C01 C02 C04 C05 C06-C10 C12 C13 C17 executed
inside an emulated big-endian host (library + thunks compiled for mips64 to
LLVM IR, every multi-byte load/store wrapped in bswap, then compiled for
x86-64) and natively; each world must agree with the byte-addressed reference
model and the two transcripts must be identical."""
import glob, os, subprocess, sys, time
from . import core

FS = ['C01', 'C02', 'C04', 'C05', 'C12', 'C17']
SS = ['C06', 'C07', 'C08', 'C09', 'C10', 'C13']
WSRC = ['wrap_generic.c', 'wrap_ser.c', 'wrap_bo.c']


def resource_dir():
    return core.sh(['clang', '-print-resource-dir']).stdout.strip()


def be_objects(wdir, gdir, opt, triple='mips64-unknown-linux-gnu', identity=False, extra=(), extra_jobs=(), soft=False):
    """library + thunks through the rewriter; returns objects"""
    os.makedirs(wdir, exist_ok=True)
    res = resource_dir()
    srcs = core.repo_sources() + sorted(glob.glob(os.path.join(gdir, 'wrap_*.c'))) + [os.path.join(core.ROOT, 'world', w) for w in WSRC] + list(extra)
    optf = ['-O0'] if opt == '-O0' else [opt, '-fno-vectorize', '-fno-slp-vectorize']
    common = ['clang', '--target=' + triple, '-std=gnu99', '-ffreestanding', '-nostdinc', '-isystem', os.path.join(res, 'include'),
              '-I' + os.path.join(core.ROOT, 'be', 'shim'), *core.lib_flags(), '-I' + os.path.join(core.ROOT, 'world')] + optf
    jobs = []
    for s in srcs:
        base = os.path.join(wdir, core.objname(s)[:-2])
        jobs.append((s, base, []))
    # the other preprocessor branch of Byteorder.h for the mirror check of C13
    jobs.append((os.path.join(core.ROOT, 'world', 'wrap_bo.c'), os.path.join(wdir, 'wrap_bo2'),
                 ['-DW_BO=w_bo2', '-DW_FORCE_BIG' if identity else '-DW_FORCE_LITTLE', '-Wno-builtin-macro-redefined']))
    jobs += [(s_, os.path.join(wdir, b_), list(d_)) for s_, b_, d_ in extra_jobs]
    core.par([common + d + ['-S', '-emit-llvm', '-o', b + '.ll', s] for s, b, d in jobs], 'big-endian world: front end' if not soft else 'freestanding world (LLVM IR pipeline)', soft=soft)
    core.par([[sys.executable, os.path.join(core.ROOT, 'be', 'rewrite.py'), b + '.ll', b + '.be.ll'] + (['--identity'] if identity else []) for s, b, d in jobs],
             'big-endian world: IR rewriter refused the code (it never guesses)')
    core.par([['clang', '-c', '-O1', '-Wno-override-module', b + '.be.ll', '-o', b + '.o'] for s, b, d in jobs], 'big-endian world: back end')
    return [b + '.o' for s, b, d in jobs]


def build(b):
    g = os.path.join(b, 'gen')
    core.run_gen(g)
    nf = core.build_native(os.path.join(b, 'native_f'), g, ['common.c', 'explore_fields.c'])
    ns = core.build_native(os.path.join(b, 'native_s'), g, ['common.c', 'explore_ser.c'])
    st = os.path.join(core.ROOT, 'be', 'selftest.c')
    exes = {}
    # native little-endian world (gcc -O2), as in the other checks
    wn = core.build_world(os.path.join(b, 'w_native'), g, world_srcs=WSRC)
    o2 = os.path.join(b, 'w_native', 'wrap_bo2.o')
    core.par([['gcc', '-std=gnu99', '-O2', *core.lib_flags(), '-DW_BO=w_bo2', '-DW_FORCE_BIG', '-Wno-builtin-macro-redefined', '-c',
               os.path.join(core.ROOT, 'world', 'wrap_bo.c'), '-o', o2]])
    exes['native-le'] = (core.link(os.path.join(b, 'ef_native'), nf + wn + [o2]), core.link(os.path.join(b, 'es_native'), ns + wn + [o2]))
    for name, opt, triple, ident in (('be-O0', '-O0', 'mips64-unknown-linux-gnu', False), ('be-O1', '-O1', 'mips64-unknown-linux-gnu', False),
                                     ('pipeline-identity', '-O1', 'x86_64-pc-linux-gnu', True)):
        objs = be_objects(os.path.join(b, 'w_' + name), g, opt, triple, ident, extra=[st])
        exes[name] = (core.link(os.path.join(b, 'ef_' + name), nf + objs, cc='clang'), core.link(os.path.join(b, 'es_' + name), ns + objs, cc='clang'))
    # self-test driver
    drv = os.path.join(b, 'selftest_drv.c')
    open(drv, 'w').write('#include <stdio.h>\n#include <stdint.h>\nuint64_t w_selftest(uint8_t*);uint64_t w_world_id(void);\n'
                         'int main(void){static uint8_t buf[64] __attribute__((aligned(16)));uint64_t r=w_selftest(buf);printf("%llu %llu\\n",(unsigned long long)r,(unsigned long long)w_world_id());return 0;}\n')
    for name in ('be-O0', 'be-O1', 'pipeline-identity'):
        wd = os.path.join(b, 'w_' + name)
        objs = [os.path.join(wd, core.objname(st)[:-2] + '.o'), os.path.join(wd, core.objname(os.path.join(core.ROOT, 'world', 'wrap_generic.c'))[:-2] + '.o')]
        objs += [o for o in glob.glob(os.path.join(wd, '*Utils_c.o'))]
        exe = os.path.join(b, 'selftest_' + name)
        r = core.sh(['clang', drv, '-o', exe] + objs)
        if r.returncode:
            core.die_infra('selftest link: ' + r.stderr[-800:])
        out = core.sh([exe]).stdout.split()
        want = ['0', '1'] if name.startswith('be') else ['4095', '0']   # the identity run is little-endian: every big-endian known answer must fail there
        if out != want:
            core.die_infra('big-endian emulation self-test failed in world %s: got %s, expected %s (bit mask of failed known answers)' % (name, out, want))
    return exes


def run(prop, tier):
    t0 = time.time()
    b = core.fresh_dir(os.path.join(core.ROOT, 'build', 'C14'))
    exes = build(b)
    heavy = {'C01', 'C02', 'C12', 'C17'}
    res = core.Result()
    digests = {}
    per_key = {}
    for name, (ef, es) in exes.items():
      for off in ([None, 4] if tier == 'quick' else [None, 1, 2, 4, 6]):
        for suite in FS + SS:
            if off is not None and suite == 'C13':
                continue
            exe = ef if suite in FS else es
            st = ('lite' if suite in heavy else 'quick') if tier == 'quick' else 'quick'
            if off is not None:
                st = 'lite'          # the placement sweep inside each world uses the reduced lattice
            r = core.run_slices(exe, ['--suite', suite, '--tier', st] + ([] if off is None else ['--off', str(off)]), timeout=1500, tag=name)
            if off is not None:
                suite = '%s@%d' % (suite, off)
            digests.setdefault(suite, {})[name] = tuple(r.transcripts)
            for k, v in r.counters.items():
                res.counters[k] = res.counters.get(k, 0) + v
            for s in r.samples[:1]:
                s2 = 'world %s: %s' % (name, s)
                if len(res.samples) < 6:
                    res.samples.append(s2)
            for (op, key), info in r.viol.items():
                per_key.setdefault((op, key), {})[name] = info
            res.incomplete += r.incomplete
    worlds = list(exes)
    for (op, key), d in sorted(per_key.items()):
        if 'native-le' in d and all(w in d for w in worlds):
            continue      # the same failure on either host: not a host-order dependence (its own property reports it)
        ws = sorted(d)
        info = d[ws[0]]
        res.viol[('C14', 'host-dependent: %s %s' % (op, key))] = {'count': len(ws), 'case': '%s|%s|%s' % (op, ws[0], info['case']),
                                                                   'detail': 'fails in %s but not in %s: %s' % (ws, [w for w in worlds if w not in d], info['detail']), 'tag': ''}
    cmp = 0
    if not per_key:
        for suite, d in sorted(digests.items()):
            if suite.startswith('C13'):
                continue          # helper results are host-order dependent numbers by definition; C13 checks images against the model instead
            cmp += 1
            ref = d['native-le']
            for w in worlds:
                if d[w] != ref:
                    res.viol[('C14', 'transcript differs: %s %s vs native-le' % (suite, w))] = {'count': 1, 'case': '', 'detail': 'digests %s vs %s' % (d[w][:2], ref[:2]), 'tag': ''}
    core.finish('C14', tier, t0, res,
                rule='worlds = {native little-endian gcc -O2, emulated big-endian host at -O0 and -O1, identity run of the same pipeline}; in each world the lattices of C01 C02 C04 C05 C06 C07 C08 C09 C10 C12 C13 C17 (quick tier: lite lattices for C01 C02 C12 C17) run against the byte-addressed reference model, with the PDU at a 16-byte boundary and again at +4 (thorough: +1,+2,+4,+6) so that quadlet- and 8-byte-aligned fast paths are taken in every world; wire-byte/value transcripts of every suite compared between worlds; a failure present in every world is not a host dependence',
                bounds={'worlds': worlds, 'suites': FS + SS, 'transcripts_compared': cmp},
                assumptions=['no big-endian hardware, emulator or cross gcc exists in the sandbox: the big-endian host is emulated - clang front end for mips64 (so __BYTE_ORDER__ is big-endian and the identity branch of Byteorder.h is compiled) + an IR rewriter that byte-swaps every 16/32/64-bit integer, float, double and pointer load/store and byte-reverses integer constants in global initialisers; the rewriter refuses code it does not understand',
                             'the emulation is bound to reality by known-answer self-tests (typed reads of byte strings, float/double images, constant tables, struct images) and by the identity run of the same pipeline reproducing the native transcripts',
                             'byte order only: alignment traps of real big-endian parts are C15'],
                recipe={'engine': 'c14'}, extra_cov={'selftest': 'passed in be-O0, be-O1 (mask 0, big-endian) and pipeline-identity (little-endian)'})


def replay(prop, case):
    b = core.fresh_dir(os.path.join(core.ROOT, 'build', 'C14'))
    exes = build(b)
    op, world, cs = case.split('|', 2)
    ef, es = exes[world]
    exe = ef if op in FS or op in ('C03', 'C11') else es
    rc = subprocess.run([exe, '--case', cs]).returncode
    print('--- same case in the native little-endian world:')
    subprocess.run([exes['native-le'][0 if exe == ef else 1], '--case', cs])
    return rc
