"""C19 (E4): the real acf-can-talker main() feeding the real acf-can-listener
main() through the I/O seam; every frame of the alphabet, 1..3 frames per
packet, TSCF/NTSCF x UDP/raw x classic/FD; frames out must equal frames in and
the control header must announce exactly the ACF bytes that follow."""
import itertools, os, struct, time
from . import core, e4

EFF, RTR = 0x80000000, 0x40000000
BRS, ESI, FDF = 0x01, 0x02, 0x04
FD_LENS = [0, 1, 3, 4, 7, 8, 12, 16, 20, 24, 32, 48, 64]
CC_LENS = [0, 1, 3, 4, 7, 8]


def frame_bytes(fd, can_id, data, flags=0):
    """what read() on the CAN socket returns: struct canfd_frame (72 bytes) for an FD frame, struct can_frame (16 bytes)
    for a classic one - also on a socket with FD frames enabled. Bits 8..11 of `flags` are the len8_dlc byte of a classic frame."""
    if fd and (flags & FDF):
        return struct.pack('<IBBBB', can_id, len(data), flags & 0xFF, 0, 0) + bytes(data) + bytes(64 - len(data))
    return struct.pack('<IBBBB', can_id, len(data), 0, 0, (flags >> 8) & 0xF) + bytes(data) + bytes(8 - len(data))


def parse_frame(fd, b):
    """a frame written by the listener: 72 bytes = FD frame, 16 bytes = classic frame"""
    can_id, ln, flags = struct.unpack('<IBB', b[:6])
    isfd = len(b) > 16
    return (can_id, ln, ((flags | FDF) if isfd else 0) if fd else 0, bytes(b[8:8 + min(ln, 64 if isfd else 8)]))


NOW_NS = 1700000000 * 10**9 + 123456789      # the seam's fixed clock, as the talker turns it into a message timestamp


def reference_packets(cf, udp, fd, count, frames):
    """the packets a correct talker builds from these frames (capacity permitting): byte-exact reference"""
    out = []
    for p in range(len(frames) // count):
        msgs = b''
        for cid, data, flags in frames[p * count:(p + 1) * count]:
            isfd = bool(fd and (flags & FDF))
            msgs += e4.can_msg(cid & 0x1FFFFFFF, data, eff=1 if cid & EFF else 0, rtr=1 if cid & RTR else 0, fdf=1 if isfd else 0,
                               brs=1 if isfd and flags & BRS else 0, esi=1 if isfd and flags & ESI else 0, ts=NOW_NS)
        out.append(bytes(e4.control(cf, msgs, udp, seq=p)))
    return out


def alphabet(fd):
    out = []
    for cid in (0, 1, 0x7FF, 0x800, 0x1FFFFFFF):
        for eff in (0, 1):
            if not eff and cid > 0x7FF:
                continue
            for pat in (0, 1):
                for ln in (FD_LENS if fd else CC_LENS):
                    data = bytes([(0xFF if pat else (i * 3 + 1) & 0xFF) for i in range(ln)])
                    if fd:
                        for brs in (0, 1):
                            for esi in (0, 1):
                                out.append((cid | (EFF if eff else 0), data, FDF | (BRS if brs else 0) | (ESI if esi else 0)))
                    else:
                        for rtr in (0, 1):
                            out.append((cid | (EFF if eff else 0) | (RTR if rtr else 0), data, 0))
    return out


def reduced(fd):
    out = []
    for eff in (0, 1):
        for ln in (1, 8):
            data = bytes([(0x10 + i) for i in range(ln)])
            if fd:
                for brs in (0, 1):
                    for esi in (0, 1):
                        out.append((0x123 | (EFF if eff else 0), data, FDF | (BRS if brs else 0) | (ESI if esi else 0)))
            else:
                for rtr in (0, 1):
                    out.append((0x123 | (EFF if eff else 0) | (RTR if rtr else 0), data, 0))
    return out


def modes():
    for cf in ('tscf', 'ntscf'):
        for udp in (1, 0):
            for fd in (0, 1):
                yield cf, udp, fd


def talker_args(cf, udp, fd, count, count_first=False):
    if count_first:
        # the same options, the frame count given first (an option that is evaluated while the others are still unparsed)
        rest = talker_args(cf, udp, fd, count).replace(' -c %d' % count, '')
        return '-c %d ' % count + rest
    a = []
    if cf == 'tscf':
        a.append('-t')
    a += ['-u', '-n', '10.0.0.2:17220'] if udp else ['-i', 'eth0', '-d', 'aa:bb:cc:dd:ee:ff']
    if fd:
        a.append('--fd')
    a += ['-c', str(count), '--canif', 'vcan0']
    return ' '.join(a)


def listener_args(udp):
    return ' '.join((['-u', '-p', '17220'] if udp else ['-i', 'eth0', '-d', 'aa:bb:cc:dd:ee:ff']) + ['--canif', 'vcan0'])


def describe(fr, fd):
    cid, data, flags = fr
    s = 'id=0x%x%s%s len=%d' % (cid & 0x1FFFFFFF, ' EFF' if cid & EFF else '', ' RTR' if cid & RTR else '', len(data))
    if fd:
        s += ' flags=%s%s%s' % ('BRS ' if flags & BRS else '', 'ESI ' if flags & ESI else '', 'FDF' if flags & FDF else '')
    return s


def run(prop, tier):
    t0 = time.time()
    b = core.fresh_dir(os.path.join(core.ROOT, 'build', 'C19'))
    planted = e4.selftest(b)
    cases = []      # (id, mode, count, frames(list per packet list))
    count_first = set()      # indices of cases run with the -c option first on the command line
    for cf, udp, fd in modes():
        A, R = alphabet(fd), reduced(fd)
        for fr in A:
            cases.append(((cf, udp, fd), 1, [fr]))
        for tup in itertools.product(R, repeat=2):
            cases.append(((cf, udp, fd), 2, list(tup)))
        trip = R if tier == 'thorough' or not fd else R[::2]
        for tup in itertools.product(trip, repeat=3):
            cases.append(((cf, udp, fd), 3, list(tup)))
        # many frames per packet: the control header's length field near and beyond 1024 bytes of ACF data
        for n in ((11, 12, 16) if fd else (42, 43, 60)):
            big = []
            for k in range(n):
                cid, _, flags = R[k % len(R)]
                big.append((cid, bytes((k + i) & 0xFF for i in range(64 if fd else 8)), flags))
            cases.append(((cf, udp, fd), n, big))
        # what else the CAN socket can hand over: classic frames on a socket with FD frames enabled (read() returns 16 bytes),
        # alone and mixed with FD frames in one packet; classic frames of length 8 with a raw DLC of 9..15 in len8_dlc
        if fd:
            for cid, data, _ in alphabet(0):
                cases.append(((cf, udp, fd), 1, [(cid, data, 0)]))
            mixed = R[:4] + [(c, d, 0) for c, d, _ in reduced(0)[:4]]
            for tup in itertools.product(mixed, repeat=2):
                cases.append(((cf, udp, fd), 2, list(tup)))
            for tup in itertools.product(mixed[::2], repeat=3):
                cases.append(((cf, udp, fd), 3, list(tup)))
        for dlc in range(9, 16):
            for cid in (0x123, 0x123 | EFF):
                cases.append(((cf, udp, fd), 1, [(cid, bytes(range(0x31, 0x39)), dlc << 8)]))
            cases.append(((cf, udp, fd), 2, [(0x123, bytes(range(0x31, 0x39)), dlc << 8), (0x124, b'\x01', R[0][2] if fd else 0)]))
        # packets filled up to and beyond the talker's 1500-byte buffer: counts around the capacity for maximal, empty and mixed frames
        hdrlen = (4 if udp else 0) + (24 if cf == 'tscf' else 12)
        maxd = 64 if fd else 8
        cap_max, cap_zero = (1500 - hdrlen) // (16 + maxd), min(255, (1500 - hdrlen) // 16)
        for cnt in sorted({cap_max - 1, cap_max, cap_max + 1, cap_max + 8, cap_zero, min(255, cap_zero + 1), 255}):
            # (FD socket: also filled with classic frames only, and with classic and FD frames alternating)
            for shape in ('max', 'zero', 'mix') + (('classic', 'alternating') if fd else ()):
                nfr = 2 * cnt
                fill = []
                for k in range(nfr):
                    cid, _, flags = R[k % len(R)]
                    ln = maxd if shape == 'max' else 0 if shape == 'zero' else (k * 7) % (maxd + 1)
                    if shape == 'classic' or shape == 'alternating' and k % 2 == 0:
                        ln, flags = 8 - (k % 3), 0
                    if fd and flags and ln not in FD_LENS:
                        ln = max(x for x in FD_LENS if x <= ln)
                    fill.append((cid, bytes((k + i) & 0xFF for i in range(ln)), flags))
                cases.append(((cf, udp, fd), cnt, fill))
                if shape in ('max', 'classic'):
                    count_first.add(len(cases))
                    cases.append(((cf, udp, fd), cnt, fill))
        # a long run through one talker and one listener process: 300 single-frame packets (the 8-bit sequence numbers wrap)
        cases.append(((cf, udp, fd), 1, [(R[k % len(R)][0], bytes((k + i) & 0xFF for i in range(1 + k % 8)), R[k % len(R)][2]) for k in range(300)]))
        # consecutive packets whose layout changes, payloads all ones (whatever one packet leaves in the talker's buffer must
        # not show in the next)
        lens = (0, 4, 8) if not fd else (0, 4, 8, 64)
        for la, lb, lc, ld in itertools.product(lens, repeat=4):
            if (la, lb) == (lc, ld):
                continue
            fl = R[0][2]
            cases.append(((cf, udp, fd), 2, [(0x1FFFFFFF | EFF, b'\xff' * la, fl), (0x1FFFFFFF | EFF, b'\xff' * lb, fl), (0x000, b'\xff' * lc, fl), (0x000, b'\xff' * ld, fl)]))
        # two packets in sequence
        for tup in itertools.product(R[:6], repeat=2):
            cases.append(((cf, udp, fd), 1, list(tup)))
            cases.append(((cf, udp, fd), 2, list(tup) + list(reversed(tup))))
    res = core.Result()
    tot = {'tun': 0, 'scripts': 0}

    def viol(key, case_id, detail):
        e = res.viol.setdefault(('C19', key), {'count': 0, 'case': case_id, 'detail': detail, 'tag': ''})
        e['count'] += 1

    def tunnel(talker, listener, vtag, sel=None):
        tscripts = []
        for i, (mode, count, frames) in enumerate(cases):
            cf, udp, fd = mode
            if sel and not sel(i, mode, count, frames):
                continue
            tscripts.append(('t%d' % i, talker_args(cf, udp, fd, count, i in count_first), '-', ['C' + frame_bytes(fd, *[f[0], f[1], f[2]]).hex() for f in frames]))
        tres = e4.run_batch(talker, tscripts)
        lscripts = []
        pk = {}
        split_ok = {}

        for i, (mode, count, frames) in enumerate(cases):
            cf, udp, fd = mode
            if ('t%d' % i) not in tres:
                continue
            st, eff, rep = tres['t%d' % i]
            cls = e4.classify(st, rep)
            mname = '%s/%s/%s' % (cf, 'udp' if udp else 'raw', 'fd' if fd else 'classic')
            if cls:
                viol('talker: %s' % cls, 'T|%d' % i, '%s count=%d frames=%s' % (mname, count, [describe(f, fd) for f in frames]))
                continue
            pkts = [bytes.fromhex(x[4:]) for x in eff.split(';') if x.startswith('PKT ')]
            if 'STACKGROWTH' in eff:
                viol('talker: the stack grows with every packet sent', 'T|%d' % i, '%s count=%d' % (mname, count))
            if any(len(p) > 1500 for p in pkts):
                viol('talker: packet larger than its 1500-byte buffer', 'T|%d' % i, '%s count=%d: packet sizes %s' % (mname, count, sorted({len(p) for p in pkts})))
                continue
            # a count that may not fit one packet: the talker may split as it likes, all that matters is that the frames arrive
            split_ok[i] = (4 if udp else 0) + (24 if cf == 'tscf' else 12) + count * (16 + (64 if fd else 8)) > 1500
            if len(pkts) != len(frames) // count and not split_ok[i]:
                viol('talker: wrong number of packets', 'T|%d' % i, '%s count=%d: %d frames gave %d packets' % (mname, count, len(frames), len(pkts)))
                continue
            # the control header announces exactly the ACF bytes that follow
            for p in pkts:
                off = 4 if udp else 0
                if cf == 'tscf':
                    n, hl = e4.getf(p, 'Tscf', 'stream_data_length', off), 24
                else:
                    n, hl = e4.getf(p, 'Ntscf', 'ntscf_data_length', off), 12
                if n != len(p) - off - hl:
                    viol('talker: control header data length != ACF bytes that follow (%s)' % cf, 'T|%d' % i, '%s count=%d: announces %d, %d bytes follow' % (mname, count, n, len(p) - off - hl))
            if not split_ok[i] and vtag == 'asan-O1':
                ref = reference_packets(cf, udp, fd, count, frames)
                for pi_, (a_, b_) in enumerate(zip(pkts, ref)):
                    if a_ != b_:
                        dif = next((k for k in range(min(len(a_), len(b_))) if a_[k] != b_[k]), min(len(a_), len(b_)))
                        viol('talker: packet bytes differ from the reference encoding (%s)' % ('first packet' if pi_ == 0 else 'later packet'), 'T|%d' % i,
                             '%s count=%d packet %d: first difference at byte %d: sent %s reference %s' % (mname, count, pi_, dif, a_[max(0, dif - 4):dif + 8].hex(), b_[max(0, dif - 4):dif + 8].hex()))
                        break
            pk[i] = pkts
            lscripts.append(('l%d' % i, listener_args(udp), 'fd' if fd else '-', ['D' + p.hex() for p in pkts]))
            if not udp and any(len(p) < 46 for p in pkts):
                # over Ethernet a short PDU arrives zero-padded to the minimum frame size (46 bytes of payload)
                lscripts.append(('lp%d' % i, listener_args(udp), 'fd' if fd else '-', ['D' + (p + bytes(max(0, 46 - len(p)))).hex() for p in pkts]))
        lres = e4.run_batch(listener, lscripts)
        for i, (mode, count, frames) in [(i_, c_) for i_, c_ in enumerate(cases)] + [(-1 - i_, c_) for i_, c_ in enumerate(cases) if ('lp%d' % i_) in lres]:
            padded = i < 0
            if padded:
                i = -1 - i
            if i not in pk:
                continue
            cf, udp, fd = mode
            mname = '%s/%s/%s%s' % (cf, 'udp' if udp else 'raw', 'fd' if fd else 'classic', ' (padded to the Ethernet minimum)' if padded else '')
            st, eff, rep = lres[('lp%d' if padded else 'l%d') % i]
            tot['tun'] += 1
            cls = e4.classify(st, rep)
            if cls:
                viol('listener: %s' % cls, 'L|%d' % i, '%s count=%d frames=%s' % (mname, count, [describe(f, fd) for f in frames]))
                continue
            outf = [parse_frame(fd, bytes.fromhex(x[4:])) for x in eff.split(';') if x.startswith('CAN ')]
            if split_ok.get(i) and len(frames) - count < len(outf) <= len(frames):
                frames = frames[:len(outf)]      # the rest is still waiting in the talker's unfinished packet when the script ends
            if len(outf) != len(frames):
                viol('tunnel: number of frames', 'L|%d' % i, '%s count=%d: %d in, %d out' % (mname, count, len(frames), len(outf)))
                continue
            for k, (fin, fo) in enumerate(zip(frames, outf)):
                cid, data, flags = fin
                what = []
                if (fo[0] & 0x1FFFFFFF) != (cid & 0x1FFFFFFF):
                    what.append('identifier')
                if (fo[0] & EFF) != (cid & EFF):
                    what.append('EFF flag')
                if (fo[0] & RTR) != (cid & RTR):
                    what.append('RTR flag')
                if fo[1] != len(data):
                    what.append('length')
                elif fo[3] != data:
                    what.append('data')
                if fd and (fo[2] & (BRS | ESI | FDF)) != (flags & (BRS | ESI | FDF)):
                    for nm, bit in (('BRS', BRS), ('ESI', ESI), ('FDF', FDF)):
                        if (fo[2] & bit) != (flags & bit):
                            what.append('%s flag%s' % (nm, '' if k == 0 else ' (frame %d of the packet)' % (k % count + 1) if False else ''))
                for w in what:
                    pos = 'single-frame packet' if count == 1 else ('first frame of a packet' if k % count == 0 else 'later frame of a multi-frame packet')
                    viol('tunnel: %s differs (%s, %s)' % (w, 'fd' if fd else 'classic', pos), 'L|%d' % i,
                         '%s count=%d frame %d: in {%s} out {id=0x%x len=%d flags=0x%x}' % (mname, count, k, describe(fin, fd), fo[0], fo[1], fo[2]))

        tot['scripts'] += len(tscripts) + len(lscripts)

    talker = e4.build_program(b, 'acf-can-talker')
    listener = e4.build_program(b, 'acf-can-listener')
    if not e4.fd_available(listener, listener_args(1)):
        res.incomplete.append('acf-can-listener: FD mode cannot be entered on this tree (no mode variable, and its --fd option does not reach the receive loop); FD modes are not explored')
        cases[:] = [c for c in cases if not c[0][2]]
    tunnel(talker, listener, 'asan-O1')
    # again as the project's default build compiles the examples: -O0, locals not auto-initialised (still under ASan+UBSan)
    tunnel(e4.build_program(b, 'acf-can-talker', init='none'), e4.build_program(b, 'acf-can-listener', init='none'), 'O0')
    # and for an ABI whose plain char is unsigned (ARM, PowerPC, RISC-V): the single frames of the alphabet, the pairs and
    # the filled packets
    tunnel(e4.build_program(b, 'acf-can-talker', extra_flags=('-funsigned-char',)), e4.build_program(b, 'acf-can-listener', extra_flags=('-funsigned-char',)), 'uchar',
           sel=lambda i, mode, count, frames: len(frames) <= 2 or count > 3)
    ntun = tot['tun']
    res.counters = {'cases': len(cases), 'transitions': tot['scripts'], 'states': len(cases), 'nontrivial': ntun}
    json_cases = os.path.join(b, 'cases.json')
    import json
    json.dump([[list(m) + [1 if k in count_first else 0], c, [[f[0], f[1].hex(), f[2]] for f in fr]] for k, (m, c, fr) in enumerate(cases)], open(json_cases, 'w'))
    core.finish('C19', tier, t0, res,
                rule='tunnel runs = {TSCF,NTSCF} x {UDP,raw} x {classic,FD} x (every single frame of the alphabet: ids {0,1,0x7FF,0x800,0x1FFFFFFF} x EFF x RTR | BRS x ESI x lengths x 2 data patterns) + all ordered 2- and 3-tuples over the reduced alphabet {EFF x RTR | EFF x BRS x ESI} x {len 1, 8} with 2/3 frames per packet + two packets in sequence; real talker main() -> captured packets -> real listener main(); frames out compared with frames in; control header data length checked on every packet',
                bounds={'tunnel_runs': ntun, 'frames_per_packet': [1, 2, 3, 'classic 42/43/60', 'FD 11/12/16 x 64 bytes', 'counts at capacity-1, capacity, capacity+1, capacity+8 (maximal frames), the same for empty frames, and 255, each with maximal / empty / mixed frame lengths'], 'longest_run': '300 packets through one talker/listener process', 'modes': 8},
                assumptions=['only frames a CAN_RAW socket can deliver (classic len <= 8; FD frames carry CANFD_FDF); data beyond len not compared',
                             'FD mode of the listener is entered by setting its mode variable (its --fd option dereferences a null argument at start-up, outside this property)',
                             'both programs run under ASan+UBSan with pattern-initialised locals'],
                recipe={'engine': 'c19'}, extra_cov={'planted_bug_selftest': 'toy listener trusting a length byte: reported as ' + planted}, samples=['NTSCF/UDP/FD, 2 frames per packet: [id=0x123 EFF len=8 BRS FDF] then [id=0x123 len=1 ESI FDF]',
                                                  'TSCF/raw/classic single frame id=0x7FF EFF RTR len=0'])


def replay(prop, case):
    import json
    b = os.path.join(core.ROOT, 'build', 'C19')
    cases = json.load(open(os.path.join(b, 'cases.json'))) if os.path.exists(os.path.join(b, 'cases.json')) else None
    if cases is None:
        print('run ./vcheck C19 first (the case table is rebuilt by the check)')
        return 2
    which, idx = case.split('|')
    mode, count, frames = cases[int(idx)]
    cf, udp, fd, cfirst = (list(mode) + [0])[:4]
    frames = [(f[0], bytes.fromhex(f[1]), f[2]) for f in frames]
    # (replays with the plain-char-unsigned build when REPLAY_UCHAR is set: a difference that needs that ABI)
    xf = ('-funsigned-char',) if os.environ.get('REPLAY_UCHAR') else ()
    talker = e4.build_program(b, 'acf-can-talker', extra_flags=xf)
    listener = e4.build_program(b, 'acf-can-listener', extra_flags=xf)
    t = e4.run_batch(talker, [('t', talker_args(cf, udp, fd, count, bool(cfirst)), '-', ['C' + frame_bytes(fd, *f).hex() for f in frames])])['t']
    print('frames in :', [describe(f, fd) for f in frames])
    print('talker    :', t[0], t[1][:300], t[2][:300])
    pkts = [x[4:] for x in t[1].split(';') if x.startswith('PKT ')]
    l = e4.run_batch(listener, [('l', listener_args(udp), 'fd' if fd else '-', ['D' + p for p in pkts])])['l']
    print('listener  :', l[0], l[1][:400], l[2][:300])
    outf = [parse_frame(fd, bytes.fromhex(x[4:])) for x in l[1].split(';') if x.startswith('CAN ')]
    print('frames out:', [('id=0x%x' % o[0], 'len=%d' % o[1], 'flags=0x%x' % o[2], o[3].hex()) for o in outf])
    ok = l[0] == 'ok' and len(outf) == len(frames) and all(o[0] == f[0] and o[1] == len(f[1]) and o[3] == f[1] and (not fd or (o[2] & 7) == (f[2] & 7)) for o, f in zip(outf, frames))
    return 0 if ok else 1
