"""Shared driver machinery: building worlds from /repo's working tree, running
explorer slices, known-finding handling, replay files, evidence files."""
import concurrent.futures as cf
import glob, hashlib, json, os, re, shlex, shutil, subprocess, sys, time

ROOT = os.path.dirname(os.path.dirname(os.path.abspath(__file__)))
REPO = os.environ.get('VERIF_REPO', '/repo')
NCPU = min(16, os.cpu_count() or 4)
FINDINGS = os.path.join(ROOT, 'findings', 'known-findings.txt')


def sh(cmd, **kw):
    return subprocess.run(cmd, stdout=subprocess.PIPE, stderr=subprocess.PIPE, text=True, **kw)


def die_infra(msg):
    """the harness itself is broken (not a property violation)"""
    print('HARNESS-ERROR: ' + msg, file=sys.stderr)
    sys.exit(2)


class WorldUnavailable(Exception):
    """a freestanding world (no C library of its own) cannot be built because the code under test includes a system
    header that world does not provide; the caller leaves the world out and says so in the evidence"""


def par(cmds, what='compile', soft=False):
    """run compile commands in parallel; any failure is a harness error (soft: a missing system header raises WorldUnavailable)"""
    def one(c):
        r = sh(c)
        return c, r
    with cf.ThreadPoolExecutor(NCPU) as ex:
        for c, r in ex.map(one, cmds):
            if r.returncode != 0:
                m = re.search(r"fatal error: '?([\w./+-]+\.h)'?(: No such file or directory| file not found)", r.stderr)
                if soft and m and not m.group(1).startswith('avtp/'):
                    raise WorldUnavailable('%s: <%s> is not available there' % (what, m.group(1)))
                die_infra('%s failed: %s\n%s' % (what, ' '.join(c), r.stderr[-3000:]))


_CMAKE = None


def cmake_config():
    """What the project's own build passes to the compiler for the library sources: the checks compile src/**/*.c
    themselves (in many worlds), so preprocessor definitions that only the CMake build makes (options that default to ON,
    results of configure-time probes, generated configuration headers) have to be taken over, or code that ships in the
    library would never be executed. -> {'defs': [...], 'incs': [...], 'srcs': [...], 'note': str}"""
    global _CMAKE
    if _CMAKE is not None:
        return _CMAKE
    d = os.path.join(ROOT, 'build', 'cmake-config-%d' % os.getpid())
    shutil.rmtree(d, ignore_errors=True)
    os.makedirs(d)
    import atexit
    atexit.register(shutil.rmtree, d, True)
    cfg = {'defs': [], 'incs': [], 'srcs': [], 'note': ''}
    r = sh(['cmake', '-S', REPO, '-B', d, '-G', 'Ninja', '-DCMAKE_EXPORT_COMPILE_COMMANDS=ON'])
    cc = os.path.join(d, 'compile_commands.json')
    if r.returncode != 0 or not os.path.exists(cc):
        cfg['note'] = 'the project does not configure with cmake (%s); its own compile definitions are not known' % (r.stderr.strip().splitlines() or ['?'])[-1][:120]
        _CMAKE = cfg
        return cfg
    import shlex
    defs, incs, srcs = [], [], []
    cdefs = []
    for e in json.load(open(cc)):
        f = os.path.normpath(os.path.join(e.get('directory', ''), e['file']))
        if not f.startswith(os.path.join(REPO, 'src') + os.sep):
            # a consumer of the library inside the project (example, unit test): definitions every one of them receives
            # are what the project's build hands to users of the library (INTERFACE/PUBLIC compile definitions)
            a2 = e.get('arguments') or shlex.split(e.get('command', ''))
            cdefs.append([a for a in a2 if a.startswith('-D') and len(a) > 2 and 'EXPORTS' not in a])
            continue
        srcs.append(f)
        args = e.get('arguments') or shlex.split(e.get('command', ''))
        i = 0
        while i < len(args):
            a = args[i]
            if a.startswith('-D') and not a.startswith('-Dopen1722') and 'EXPORTS' not in a:
                v = a if len(a) > 2 else a + args[i + 1]
                if v not in defs:
                    defs.append(v)
            elif a.startswith('-I') or a == '-isystem':
                v = a[2:] if a.startswith('-I') and len(a) > 2 else args[i + 1]
                v = os.path.normpath(v)
                if v not in (os.path.join(REPO, 'include'), os.path.join(REPO, 'src')) and v not in incs and os.path.isdir(v):
                    incs.append(v)
            i += 1
    common = [d for d in (cdefs[0] if cdefs else []) if all(d in c for c in cdefs) and d not in defs]
    cfg.update(defs=defs, incs=incs, srcs=sorted(set(srcs)), consumer_defs=common)
    _CMAKE = cfg
    return cfg


def consumer_defs():
    return list(cmake_config().get('consumer_defs', []))


def header_switches(limit=4):
    """configuration switches of the public headers: names a header tests with #if/#ifdef/#ifndef/defined() that nothing
    in the tree defines, that the compiler does not predefine and that are not reserved (platform) names. A user turns
    such a switch on by defining it before the #include line; each one gives a world of its own (callers compiled with
    it, library as shipped)."""
    inc = os.path.join(REPO, 'include')
    tested, defined = set(), set()
    files = glob.glob(os.path.join(inc, '**', '*.h'), recursive=True)
    for f in files + repo_sources() + glob.glob(os.path.join(REPO, 'src', '**', '*.h'), recursive=True):
        try:
            txt = open(f, errors='replace').read()
        except OSError:
            continue
        txt = re.sub(r'/\*.*?\*/', ' ', txt, flags=re.S)
        txt = re.sub(r'\\\n', ' ', txt)
        for m in re.finditer(r'^[ \t]*#[ \t]*define[ \t]+(\w+)', txt, flags=re.M):
            defined.add(m.group(1))
        if f in files:
            for m in re.finditer(r'^[ \t]*#[ \t]*(ifdef|ifndef|if|elif)\b(.*)$', txt, flags=re.M):
                if m.group(1) in ('ifdef', 'ifndef'):
                    tested.update(re.findall(r'^\s*(\w+)', m.group(2)))
                else:
                    tested.update(re.findall(r'defined\s*\(?\s*(\w+)', m.group(2)))
                    tested.update(w for w in re.findall(r'\b([A-Za-z]\w*)\b', re.sub(r'defined\s*\(?\s*\w+\s*\)?', ' ', m.group(2))) if not re.match(r'^\d', w))
    base = sh(['gcc', '-std=gnu99', '-E', '-dM', '-x', 'c', '/dev/null']).stdout
    predefined = set(re.findall(r'^#define (\w+)', base, flags=re.M))
    out = sorted(t for t in tested if t not in defined and t not in predefined and not t.startswith('_') and t not in ('NDEBUG', 'defined')
                 and not any(d == '-D' + t or d.startswith('-D' + t + '=') for d in cmake_config()['defs'] + consumer_defs()))
    return out[:limit]


def lib_flags():
    """include paths and project definitions for compiling a source of the library"""
    c = cmake_config()
    return ['-I' + os.path.join(REPO, 'include'), '-I' + os.path.join(REPO, 'src')] + ['-I' + i for i in c['incs']] + list(c['defs'])


def repo_sources():
    srcs = set(glob.glob(os.path.join(REPO, 'src', '**', '*.c'), recursive=True)) | set(cmake_config()['srcs'])
    srcs = sorted(s for s in srcs if os.path.exists(s))
    if not srcs:
        die_infra('no sources under %s/src' % REPO)
    return srcs


def objname(src):
    return re.sub(r'[^A-Za-z0-9]', '_', os.path.relpath(src, '/')) + '.o'


def fresh_dir(d):
    shutil.rmtree(d, ignore_errors=True)
    os.makedirs(d)
    return d


_GEN_DONE = {}


def run_gen(gdir):
    # once per check run and directory: the tree under test does not change while a check runs
    if gdir in _GEN_DONE and os.path.exists(os.path.join(gdir, 'gen_report.json')):
        return _GEN_DONE[gdir]
    os.makedirs(gdir, exist_ok=True)
    r = sh([sys.executable, os.path.join(ROOT, 'gen', 'gen.py'), REPO, gdir])
    if r.returncode != 0:
        die_infra('harness generator: the headers no longer provide what the spec names:\n' + r.stderr)
    with open(os.path.join(gdir, 'gen_report.json')) as f:
        _GEN_DONE[gdir] = json.load(f)
    return _GEN_DONE[gdir]


HANDWRAPPED = {'Avtp_CanBrief_Finalize', 'Avtp_CanBrief_SetPayload', 'Avtp_Can_CreateAcfMessage', 'Avtp_Can_Finalize',
               'Avtp_Can_GetCanPayloadLength', 'Avtp_Can_SetPayload', 'Avtp_Vss_CalcVssPathLength',
               'Avtp_Vss_DeserializeStringArray', 'Avtp_Vss_GetVSSDataStringArrayLength', 'Avtp_Vss_GetVssData',
               'Avtp_Vss_GetVssPath', 'Avtp_Vss_Pad', 'Avtp_Vss_SerializeStringArray', 'Avtp_Vss_SetVssData',
               'Avtp_Vss_SetVssPath'}


def platform_branches():
    """reserved (platform) names the public headers test that this host's compilers do not predefine: the code behind them
    is compiled in no world of this sandbox (it needs that platform's headers); reported as incomplete coverage"""
    inc = os.path.join(REPO, 'include')
    tested = {}
    for f in glob.glob(os.path.join(inc, '**', '*.h'), recursive=True):
        txt = re.sub(r'/\*.*?\*/', ' ', open(f, errors='replace').read(), flags=re.S)
        for m in re.finditer(r'^[ \t]*#[ \t]*(ifdef|ifndef|if|elif)\b(.*)$', txt, flags=re.M):
            for w in re.findall(r'\b(_[A-Za-z_]\w*)\b', m.group(2)):
                tested.setdefault(w, os.path.relpath(f, inc))
    pre = set()
    for cmd in (['gcc', '-std=gnu99', '-x', 'c'], ['g++', '-x', 'c++'], ['clang', '--target=x86_64-w64-windows-gnu', '-x', 'c'], ['gcc', '-m32', '-x', 'c']):
        pre |= set(re.findall(r'^#define (\w+)', sh(cmd + ['-E', '-dM', '/dev/null']).stdout, flags=re.M))
    known = {'_MSC_VER', '__STRICT_ANSI__', '_LITTLE_ENDIAN', '_BIG_ENDIAN', '_PDP_ENDIAN', '_BYTE_ORDER', '__BYTE_ORDER', '__LITTLE_ENDIAN', '__BIG_ENDIAN',
             '__BIG_ENDIAN__', '__LITTLE_ENDIAN__', '__ARMEB__', '__MIPSEB__', '__AVX__', '__AVX2__', '__BMI2__', '__SSSE3__', '__SSE4_1__', '__SSE4_2__', '_REENTRANT', '_MT'}
    return sorted('%s (%s)' % (w, f) for w, f in tested.items() if w not in pre and w not in known)


def build_world(wdir, gdir, cc='gcc', cflags=('-O2', '-g'), world_srcs=(), defines=(), cxx_callers=False, caller_defs=(), soft=False):
    """compile the library of the current working tree plus the thunks with one
    compiler/flag set; returns the list of object files. cxx_callers: the generated per-format thunks are compiled as
    C++ (the library stays C), so that whatever the public headers define inline is the C++ rendering of it"""
    os.makedirs(wdir, exist_ok=True)
    base = [cc, '-std=gnu99', *lib_flags(), '-I' + os.path.join(ROOT, 'world')] + list(cflags) + list(defines)
    cmds, objs = [], []
    gen_wraps = sorted(glob.glob(os.path.join(gdir, 'wrap_*.c')))
    # callers (the thunks) also get what the project's build passes to every consumer, and the switch of a switch world
    cdefs = consumer_defs() + list(caller_defs)
    lib = repo_sources()
    for s in lib + gen_wraps + [os.path.join(ROOT, 'world', w) for w in world_srcs]:
        o = os.path.join(wdir, objname(s))
        extra = [] if s in lib else cdefs
        if cxx_callers and s in gen_wraps and re.match(r'wrap_[A-Z]\w*\.c$', os.path.basename(s)):
            cmds.append(['g++' if cc == 'gcc' else 'clang++', '-x', 'c++', '-std=gnu++11', '-w', '-fpermissive'] + base[2:] + extra + ['-c', s, '-o', o])
        else:
            cmds.append(base + extra + ['-c', s, '-o', o])
        objs.append(o)
    if soft:
        with cf.ThreadPoolExecutor(NCPU) as ex:
            for c, r in zip(cmds, ex.map(sh, cmds)):
                if r.returncode != 0:
                    raise WorldUnavailable('callers do not compile with %s: %s' % (' '.join(caller_defs), (r.stderr.strip().splitlines() or ['?'])[0][:160]))
        return objs
    par(cmds, 'world build (%s %s)' % (cc, ' '.join(cflags)))
    return objs


def build_native(ndir, gdir, engine_srcs, extra_flags=()):
    os.makedirs(ndir, exist_ok=True)
    cmds, objs = [], []
    for s in list(engine_srcs) + [os.path.join(gdir, 'rows_gen.c')]:
        if not os.path.isabs(s):
            s = os.path.join(ROOT, 'engine', s)
        o = os.path.join(ndir, objname(s))
        cmds.append(['gcc', '-O2', '-g', '-Wall', '-Wno-clobbered', '-Wno-unused-function', '-I' + gdir,
                     '-I' + os.path.join(ROOT, 'engine'), '-I' + os.path.join(ROOT, 'world')] + list(extra_flags) + ['-c', s, '-o', o])
        objs.append(o)
    par(cmds, 'checker build')
    return objs


def link(exe, objs, cc='gcc', flags=()):
    r = sh([cc, '-o', exe] + objs + list(flags))
    if r.returncode != 0:
        die_infra('link failed: ' + r.stderr[-3000:])
    return exe


# --------------------------------------------------------------------------
class Result:
    def __init__(self):
        self.counters = {}
        self.viol = {}        # (prop, key) -> {'count', 'case', 'detail'}
        self.samples = []
        self.notes = {}       # case -> history text
        self.transcripts = []
        self.incomplete = []  # slices that died

    def add_counter(self, d):
        for k, v in d.items():
            if isinstance(v, int):
                self.counters[k] = self.counters.get(k, 0) + v
            elif k == 'transcript':
                self.transcripts.append(v)

    def parse(self, out, tag=''):
        seen_c = False
        for line in out.splitlines():
            p = line.split('\t')
            if p[0] == 'V' and len(p) >= 5:
                k = (p[1], p[2])
                e = self.viol.setdefault(k, {'count': 0, 'case': p[3], 'detail': p[4], 'tag': tag})
            elif p[0] == 'VC' and len(p) >= 4:
                k = (p[1], p[2])
                e = self.viol.setdefault(k, {'count': 0, 'case': '', 'detail': '', 'tag': tag})
                e['count'] += int(p[3])
            elif p[0] == 'S' and len(p) >= 2:
                if p[1] not in self.samples:
                    self.samples.append(p[1])
            elif p[0] == 'H' and len(p) >= 3:
                self.notes[p[1]] = p[2]
            elif p[0] == 'C' and len(p) >= 3:
                self.add_counter(json.loads(p[2]))
                seen_c = True
        return seen_c


def run_slices(exe, args, nslices=NCPU, timeout=None, env=None, result=None, tag=''):
    """run the explorer in nslices processes over disjoint slices of its case space"""
    res = result or Result()
    procs = []
    for i in range(nslices):
        cmd = [exe] + list(args) + ['--slice', '%d/%d' % (i, nslices)]
        procs.append((i, subprocess.Popen(cmd, stdout=subprocess.PIPE, stderr=subprocess.PIPE, text=True, env=env)))
    t0 = time.time()
    for i, p in procs:
        try:
            left = None if timeout is None else max(1, timeout - (time.time() - t0))
            out, err = p.communicate(timeout=left)
        except subprocess.TimeoutExpired:
            p.kill()
            out, err = p.communicate()
            res.incomplete.append('slice %d/%d timed out' % (i, nslices))
            res.parse(out, tag)
            continue
        ok = res.parse(out, tag)
        if p.returncode is not None and p.returncode < 0 and -p.returncode in (4, 6, 7, 8, 11):
            # The explorer itself was killed by a fault outside a guarded call. The explorer is deterministic and runs clean on
            # the pinned tree, so this is the code under test corrupting memory it was not given (a write that runs over
            # the checker's stack, say) and being noticed only later. Reported as a violation of the suite's property.
            suite = args[args.index('--suite') + 1] if '--suite' in args else '?'
            key = 'explorer killed by signal %d: memory outside the passed objects was corrupted' % -p.returncode
            e = res.viol.setdefault((suite, key), {'count': 0, 'case': '%s:99:0:0:0:0:0:0' % suite, 'detail': '%s, slice %d/%d of %s%s; last output: %s' % (os.path.basename(exe), i, nslices, ' '.join(args), (' [' + tag + ']') if tag else '', (out.strip().splitlines() or ['-'])[-1][:200]), 'tag': tag})
            e['count'] += 1
            continue
        if p.returncode != 0 or not ok:
            die_infra('explorer slice %d of %s exited %s without finishing\n%s' % (i, ' '.join(args), p.returncode, err[-2000:]))
    return res


def selftest(exe, what):
    """planted-bug self-test: the explorer run with --plant must report violations, else the harness is broken"""
    r = sh([exe, '--plant'])
    m = re.search(r'"violations":(\d+)', r.stdout)
    if r.returncode != 0 or not m or int(m.group(1)) == 0:
        die_infra('planted-bug self-test of %s did not fire (rc=%s): a harness that cannot fail is broken' % (what, r.returncode))
    return int(m.group(1))


# --------------------------------------------------------------------------
def load_findings():
    opens, fixed = {}, []
    if os.path.exists(FINDINGS):
        for line in open(FINDINGS):
            line = line.strip()
            if not line or line.startswith('#'):
                continue
            m = re.match(r'^open:\s+property=(\S+)\s+key="([^"]*)"\s*(.*)$', line)
            if m:
                opens[(m.group(1), m.group(2))] = m.group(3)
                continue
            if line.startswith('fixed:'):
                fixed.append(line)
    return opens, fixed


def write_replay(prop, key, info, recipe):
    os.makedirs(os.path.join(ROOT, 'replay'), exist_ok=True)
    h = hashlib.sha1((prop + '|' + key).encode()).hexdigest()[:10]
    path = os.path.join(ROOT, 'replay', '%s-%s.json' % (prop, h))
    with open(path, 'w') as f:
        json.dump({'property': prop, 'key': key, 'case': info.get('case'), 'detail': info.get('detail'),
                   'history': info.get('history'), 'count': info.get('count'), 'recipe': recipe,
                   'how': './vcheck replay ' + os.path.relpath(path, ROOT)}, f, indent=1)
    return path


def finish(prop, tier, t0, res, *, level='model_checking', rule, bounds, assumptions, recipe,
           replayer=None, extra_cov=None, exhaustive=True, samples=None):
    """apply the known-findings file, confirm violations by replay, write evidence, exit"""
    opens, _fixed = load_findings()
    new, known = [], []
    for (p, key), info in sorted(res.viol.items()):
        if p != prop:
            # a suite reports only its own property; anything else is a harness bug
            die_infra('suite for %s reported a violation of %s' % (prop, p))
        if info['case'] in res.notes:
            info['history'] = res.notes[info['case']]
        if (p, key) in opens:
            known.append((key, info))
        else:
            new.append((key, info))
    confirmed = []
    for ri, (key, info) in enumerate(new):
        if ri >= 25:
            info['detail'] = (info.get('detail') or '') + ' [not individually replayed: more than 25 new keys in this run]'
            confirmed.append((key, info))
            continue
        if replayer and info.get('case'):
            ok, why = replayer(info['case'], key)
            if not ok:
                info['detail'] = (info.get('detail') or '') + ' [replay: %s]' % why
        confirmed.append((key, info))
    for key, info in known:
        print('KNOWN-FINDING: property=%s %s -- %s (%d cases)' % (prop, key, opens[(prop, key)] or info['detail'], info['count']))
    for key, info in confirmed:
        path = write_replay(prop, key, info, recipe)
        print('VIOLATION property=%s replay=%s' % (prop, path))
        print('  key: %s\n  first case: %s\n  %s' % (key, info.get('case'), (info.get('detail') or '')[:600]))
        if info.get('history'):
            print('  history: ' + info['history'])
    c = res.counters
    smp = list(samples or []) + res.samples
    if not smp:
        smp = ['(no sample emitted)']
    cov = {
        'states': max(1, c.get('states', 0)), 'transitions': max(1, c.get('transitions', 0)),
        'traces_validated_against_impl': c.get('cases', 0),
        'evaluations': max(1, c.get('cases', 0)), 'distinct_nontrivial': max(2, c.get('nontrivial', 0)) if c.get('nontrivial', 0) >= 2 else c.get('nontrivial', 0),
        'rule': rule, 'samples': smp[:8], 'exhaustive': bool(exhaustive and not res.incomplete),
        'bounds': bounds, 'states_beyond_hash_capacity': c.get('states_unhashed', 0),
        'faults_caught': c.get('faults', 0), 'transcript_digests': res.transcripts[:32],
        'known_findings_reported': [k for k, _ in known], 'new_violations': [k for k, _ in confirmed],
        'incomplete': res.incomplete,
    }
    if extra_cov:
        cov.update(extra_cov)
    ev = {'property_id': prop, 'tier': tier, 'seed': int(os.environ.get('VERIF_SEED', '0') or 0), 'level': level,
          'coverage': cov, 'assumptions': assumptions, 'wall_s': round(time.time() - t0, 2),
          'violations': len(confirmed)}
    os.makedirs(os.path.join(ROOT, 'evidence'), exist_ok=True)
    with open(os.path.join(ROOT, 'evidence', prop + '.json'), 'w') as f:
        json.dump(ev, f, indent=1)
    print('%s %s: states=%d transitions=%d cases=%d known=%d new=%d wall=%.1fs%s' % (
        prop, tier, cov['states'], cov['transitions'], c.get('cases', 0), len(known), len(confirmed), ev['wall_s'],
        '' if cov['exhaustive'] else ' (NOT exhaustive: %s)' % '; '.join(res.incomplete)))
    sys.exit(1 if confirmed else 0)
