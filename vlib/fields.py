"""E1/E2 checks on the table-driven accessors: C01 C02 C03 C04 C05 C11 C12 C17."""
import os, re, subprocess, sys, time
from . import core

RULES = {
 'C01': ('every (format, field, access path) x {4 backgrounds x one-bit flips over header and 32 bits on each side} u {every value of FV(width) placed in the field x 4 backgrounds}; every generic descriptor shape quadlet{1,2,6} x offset 0..31 x width 0..64 x one-bit flips over 5 quadlets; non-trivial = expected value non-zero; states = distinct (format, field, buffer) pre-states hashed',
         {'buffers': 'H1 (Hamming distance <= 1 from 00/FF/A5/5A) over header +-32 bits; thorough adds H2 for headers <= 16 bytes', 'values': 'all 2^w for w<=16 (thorough w<=20); wider: one-hot, one-cold, two-hot, every 16-bit window x 65536', 'shapes': 6240}),
 'C02': ('every (format, field, write path) x {4 backgrounds x FV(width) u overflow probes} u {one-bit flips over the touched quadlets +-1 quadlet x small value set incl. values wider than the field}; whole object (16 canary bytes, header, 32 trailing bytes) diffed against ref_set, then read back through both readers; generic writer over 6240 descriptor shapes',
         {'priors': 'BG u H1 over touched quadlets +- one quadlet', 'values': 'FV(w) u {2^w, 2^w+1, ~mask, 2^63, 2^64-1, one-hot x64}', 'shapes': 6240}),
 'C03': ('every format x every identifier 0..MAX-1 via GetField/SetField, every dedicated accessor, initialisers (current, legacy), legacy get/set, payload accessor x values {0, all ones} x prior {00, FF} x 2 placements of a buffer of exactly the published header length between PROT_NONE pages; plus sizeof/offsetof/HEADER_LEN facts against the wire length',
         {'placements': 2, 'buffer': 'exactly *_HEADER_LEN bytes', 'instrumented': 'TSan-ABI hooks on every load/store of the library (-O0 and -O2), header at 8 address residues, every accessor/initialiser'}),
 'C04': ('every initialiser (current and legacy, avtp_cvf_pdu_init x 256 subtype arguments) x prior contents {00,FF,A5,5A,incrementing, one-bit flips over header and 16 trailing bytes x 4 backgrounds}; header == canonical bytes, surroundings untouched, init;init == init',
         {'priors': 'BG u incrementing u H1(header+16 trailing bytes)'}),
 'C05': ('DFS over ALL operation sequences up to depth D per format from 2 initial states (zeroed, all-ones): alphabet = {Init, legacy init} u {set(field, value, path) : every field, 4 values, by-id/dedicated/legacy}; after every step whole-object diff against the model record and every field read through every read path; two-buffer products with per-buffer models; talker traces (all fields in order/reverse/every rotation)',
         {'depth': 'quick: 3 for formats with <= 8 fields else 2; thorough: 4 / 3', 'pairs': '(Can,Can) (Can,Lin) (Tscf,Can) (Vss,Gpc) (Rvf,Rvf) (Cvf,Crf), depth 3 (thorough 4), reduced alphabet'}),
 'C11': ('every format x {null PDU through every reader/writer/initialiser incl. legacy} u {identifiers MAX, MAX+1, 127, 128, 255, 256, 256+k, 512+k, 65536+k for every valid k, 65535, 2^31-1, -1, -255, -256} x 4 backgrounds x 2 values through GetField/SetField/legacy get/set; null result pointer; valid legacy calls return 0; generic routines with null table / field >= numFields',
         {'identifiers': 'see rule; thorough adds every id in MAX..255'}),
 'C12': ('5 legacy formats x every field x {one-bit flips x 4 backgrounds, FV(width)} legacy get vs current get; legacy set vs current set on identical buffers (FV u overflow probes u one-bit-flip priors); legacy init vs current init (+format_subtype for CVF, 256 args); every alias macro; packed struct sizes/offsets',
         {}),
 'C17': ('every (base view, specific view, shared field) of the four shared-view groups x {one-bit flips x 4 backgrounds reads through every path pair; FV(width) u overflow probes written through either view, other view reads, byte images compared}',
         {'pairs': 'common header x 7, ACF common x 10 (x2 fields), stream fields x 4 formats x 7, Aaf/Pcm x 13'}),
}

ASSUME = ['spec/layouts.json is a correct transcription of IEEE 1722-2016 / acf-vss.md (hand-checked, see DESIGN appendix A)',
          'values outside the stated lattices are not executed',
          'nine worlds: gcc -O2 -funsigned-char -march=x86-64-v3 with the BSD/newlib endian constants defined, and an ILP32 one (gcc -m32, freestanding, own minimal C runtime; reduced lattice) and gcc -O2 (full lattice; the reduced lattice again with the object at a 16-byte boundary + 1 and + 4), gcc -O0 (the project\'s default build), gcc -O3 -DNDEBUG (CMake Release), clang -O2, gcc -O2 without predefined byte-order macros, gcc -O2 -fshort-enums, and clang -O1 with a 32-bit long (LLP64 data model), the latter six with the reduced lattice; other worlds are the subject of C14/C15']


def build(prop, opt='-O2', fresh=True, defs=(), cc='gcc', tag='', cxx_callers=False, caller_defs=(), soft=False):
    b = core.fresh_dir(os.path.join(core.ROOT, 'build', prop)) if fresh else os.path.join(core.ROOT, 'build', prop)
    g = os.path.join(b, 'gen')
    rep = core.run_gen(g)
    wobjs = core.build_world(os.path.join(b, 'world' + opt + tag + ('' if cc == 'gcc' else '-' + cc)), g, cc=cc, cflags=(opt, '-g'), world_srcs=['wrap_generic.c'], defines=defs, cxx_callers=cxx_callers, caller_defs=caller_defs, soft=soft)
    nobjs = core.build_native(os.path.join(b, 'native'), g, ['common.c', 'explore_fields.c'])
    exe = core.link(os.path.join(b, 'explore_fields' + opt + tag + ('' if cc == 'gcc' else cc)), nobjs + wobjs)
    return exe, rep


def alias_contexts(res, bdir):
    """C12: every legacy alias macro must name the same field whatever other public header was included before
    the header that defines it (an alias that is only defined conditionally silently changes meaning)."""
    import concurrent.futures as cf, glob
    from gen.gen import load_spec
    inc = os.path.join(core.REPO, 'include')
    hs = sorted(os.path.relpath(p, inc) for p in glob.glob(os.path.join(inc, '**', '*.h'), recursive=True))
    by = {}
    for hdr, macro, fmt, fld in load_spec()['legacy_aliases']:
        by.setdefault(hdr, []).append(macro)
    d = os.path.join(bdir, 'aliasctx')
    os.makedirs(d, exist_ok=True)

    def probe(job):
        L, H = job
        tag = (L + '__' + (H or 'alone')).replace('/', '_').replace('.', '_')
        src = os.path.join(d, tag + '.c')
        with open(src, 'w') as f:
            f.write('#include <stdio.h>\n' + ('#include "%s"\n' % H if H else '') + '#include "%s"\nint main(void){\n' % L)
            for m in by[L]:
                f.write('printf("%s %%lld\\n", (long long)(%s));\n' % (m, m))
            f.write('return 0;}\n')
        r = core.sh(['gcc', '-std=gnu99', '-w', '-I' + inc, src, '-o', src[:-2]])
        if r.returncode != 0:
            return job, None
        return job, dict(l.split() for l in core.sh([src[:-2]]).stdout.splitlines())
    jobs = [(L, None) for L in by] + [(L, H) for L in by for H in hs if H != L]
    out = {}
    with cf.ThreadPoolExecutor(core.NCPU) as ex:
        for job, vals in ex.map(probe, jobs):
            out[job] = vals
    n = 0
    for (L, H), vals in sorted(out.items(), key=lambda kv: (kv[0][0], kv[0][1] or '')):
        alone = out[(L, None)]
        if H is None:
            if alone is None:
                core.die_infra('alias probe for %s does not compile' % L)
            continue
        if vals is None:
            continue        # the combination does not compile: that is C20's subject
        n += 1
        for m, v in vals.items():
            if alone.get(m) != v:
                res.viol[('C12', 'alias %s names another field when %s is included before %s' % (m, H, L))] = {
                    'count': 1, 'case': 'C12:9:0:0:0:0:0:0', 'detail': '%s = %s with %s alone, %s after %s' % (m, alone.get(m), L, v, H), 'tag': 'include context'}
    res.counters['cases'] = res.counters.get('cases', 0) + n
    res.counters['transitions'] = res.counters.get('transitions', 0) + n
    # the packed legacy overlays in the language modes a consumer may compile with (strict ISO modes define
    # __STRICT_ANSI__; an attribute hidden behind such a test silently changes the layout)
    spec = load_spec()
    for ls in spec['legacy_structs']:
        for mode in ('-std=gnu99', '-std=c99', '-std=c11', '-std=gnu11'):
            src = os.path.join(d, 'ls_%s_%s.c' % (re.sub(r'\W', '_', ls['struct']), mode.strip('-=').replace('=', '')))
            with open(src, 'w') as f:
                f.write('#include <stdio.h>\n#include <stddef.h>\n#include "%s"\nint main(void){ printf("%%d %%d %%d\\n", (int)sizeof(%s), (int)offsetof(%s, %s), (int)__alignof__(%s)); return 0; }\n'
                        % (ls['header'], ls['struct'], ls['struct'], ls['payload_member'], ls['struct']))
            r = core.sh(['gcc', mode, '-w', '-I' + inc, src, '-o', src[:-2]])
            res.counters['cases'] += 1
            if r.returncode != 0:
                continue        # a header that does not compile in that mode is C20's subject
            got = core.sh([src[:-2]]).stdout.split()
            want = [str(ls['size']), str(ls['payload_offset']), '1']
            if got != want:
                res.viol[('C12', '%s layout in a %s unit' % (ls['struct'], mode))] = {'count': 1, 'case': 'C12:9:0:0:0:0:0:0', 'detail': 'sizeof/offsetof(payload)/alignof = %s, expected %s' % (got, want), 'tag': 'language mode'}
    return n


def make_replayer(exe, tier='quick'):
    def rp(case, key):
        outs = []
        if case.split(':')[1:2] == ['9']:
            return True, 'established outside the explorer (compile-time probe or example program); ./vcheck replay re-runs it'
        for _ in range(2):
            try:
                r = subprocess.run([exe, '--tier', tier, '--case', case], stdout=subprocess.PIPE, stderr=subprocess.PIPE, text=True, timeout=120)
            except subprocess.TimeoutExpired:
                return True, 'fresh-process replay not finished within 120 s'
            outs.append((r.returncode, [l for l in r.stdout.splitlines() if l.startswith(('OBS', 'V\t'))]))
        if outs[0] != outs[1]:
            return False, 'NON-DETERMINISTIC: two fresh-process replays of the same case differ (hidden state?)'
        if outs[0][0] != 1:
            return False, 'did not reproduce in a fresh process: the result depended on earlier calls in the exploring process'
        return True, 'reproduced twice in fresh processes'
    return rp


def run(prop, tier):
    t0 = time.time()
    exe, rep = build(prop)
    planted = core.selftest(exe, 'the field explorer (wrong spec row)')
    timeout = 1500 if tier == 'thorough' else 600
    res = core.run_slices(exe, ['--suite', prop, '--tier', tier], timeout=timeout)
    # the project's own default build has no optimisation flag: the lite lattice (quick tier) / the quick lattice
    # (thorough tier) again in a gcc -O0 world
    exe0, _ = build(prop, '-O0', fresh=False)
    res = core.run_slices(exe0, ['--suite', prop, '--tier', 'lite' if tier == 'quick' else 'quick'], timeout=timeout, result=res, tag='-O0')
    # and as a CMake Release build compiles it (-O3 -DNDEBUG: assert() bodies vanish)
    exe3, _ = build(prop, '-O3', fresh=False, defs=('-DNDEBUG',))
    res = core.run_slices(exe3, ['--suite', prop, '--tier', 'lite' if tier == 'quick' else 'quick'], timeout=timeout, result=res, tag='-O3 -DNDEBUG')
    # and by the other compiler (argument evaluation order, different folding of attributes)
    exec_, _ = build(prop, '-O2', fresh=False, cc='clang')
    res = core.run_slices(exec_, ['--suite', prop, '--tier', 'lite' if tier == 'quick' else 'quick'], timeout=timeout, result=res, tag='clang -O2')
    # a toolchain that does not predefine the byte-order macros (the library as a whole, not only the helpers), and the
    # bare-metal enum ABI (-fshort-enums: an enum is as wide as its enumerators need)
    NOMACRO = ('-U__BYTE_ORDER__', '-U__ORDER_LITTLE_ENDIAN__', '-U__ORDER_BIG_ENDIAN__', '-U__ORDER_PDP_ENDIAN__', '-Wno-builtin-macro-redefined')
    exem, _ = build(prop, '-O2', fresh=False, defs=NOMACRO, tag='-nomacro')
    res = core.run_slices(exem, ['--suite', prop, '--tier', 'lite' if tier == 'quick' else 'quick'], timeout=timeout, result=res, tag='gcc -O2, byte-order macros undefined')
    if prop != 'C11':
        # (not C11: with one-byte enums an identifier >= 256 is converted to the parameter's enum type by the *caller*, so
        # "identifier 256" does not exist as an argument there and the call legitimately addresses field 0)
        exee, _ = build(prop, '-O2', fresh=False, defs=('-fshort-enums',), tag='-shortenums')
        res = core.run_slices(exee, ['--suite', prop, '--tier', 'lite' if tier == 'quick' else 'quick'], timeout=timeout, result=res, tag='gcc -O2 -fshort-enums')
    # plain char unsigned (the ARM/PowerPC/RISC-V ABIs), a newer instruction-set level (x86-64-v3: AVX2, BMI2 - code behind
    # __AVX__/__BMI2__ is compiled), and a C library that defines the BSD/newlib endian constants (_BIG_ENDIAN is defined on
    # every target there, little-endian ones included)
    EXOTIC = ('-funsigned-char', '-march=x86-64-v3', '-D_LITTLE_ENDIAN=1234', '-D_BIG_ENDIAN=4321', '-D_PDP_ENDIAN=3412', '-D_BYTE_ORDER=_LITTLE_ENDIAN')
    exex, _ = build(prop, '-O2', fresh=False, defs=EXOTIC, tag='-exotic')
    res = core.run_slices(exex, ['--suite', prop, '--tier', 'lite' if tier == 'quick' else 'quick'], timeout=timeout, result=res, tag='gcc -O2 -funsigned-char -march=x86-64-v3, BSD endian constants defined')
    # C++ callers: the per-format thunks compiled as C++ against the C library (accessors that the headers define inline, tables
    # that have a C++ rendering of their own)
    exexx, _ = build(prop, '-O2', fresh=False, tag='-cxxcallers', cxx_callers=True)
    res = core.run_slices(exexx, ['--suite', prop, '--tier', 'lite' if tier == 'quick' else 'quick'], timeout=timeout, result=res, tag='C++ callers (g++ -O2)')
    # configuration switches of the public headers (a name a header tests that nothing defines): callers compiled with the
    # switch on, library as shipped
    for pb in core.platform_branches():
        res.incomplete.append('code behind the platform macro %s is compiled in no world of this sandbox' % pb)
    for sw in core.header_switches():
        try:
            exes, _ = build(prop, '-O2', fresh=False, tag='-sw-' + sw, caller_defs=('-D%s=1' % sw,), soft=True)
            res = core.run_slices(exes, ['--suite', prop, '--tier', 'lite' if tier == 'quick' else 'quick'], timeout=timeout, result=res, tag='callers compiled with -D%s' % sw)
            res.notes['header switch ' + sw] = 'explored (callers compiled with -D%s=1)' % sw
        except core.WorldUnavailable as e:
            res.incomplete.append('world left out: ' + str(e))
    # the same calls through the parenthesised function name: the exported function, not a function-like macro of that name
    res = core.run_slices(exe, ['--suite', prop, '--tier', 'lite' if tier == 'quick' else 'quick', '--callmode', '1'], timeout=timeout, result=res, tag='calls through (name)(...)')
    try:
        exeu, _ = build(prop, '-O2', fresh=False, tag='-untyped', caller_defs=('-DW_UNTYPED',), soft=True)
        res = core.run_slices(exeu, ['--suite', prop, '--tier', 'lite' if tier == 'quick' else 'quick'], timeout=timeout, result=res, tag='pointer arguments spelled as untyped sums')
    except core.WorldUnavailable as e:
        res.incomplete.append('world left out: ' + str(e))
    # the object under test at other addresses (16-byte boundary + 1 and + 4; all eight residues are C15's subject)
    for off in (1, 4):
        res = core.run_slices(exe, ['--suite', prop, '--tier', 'lite' if tier == 'quick' else 'quick', '--off', str(off)], timeout=timeout, result=res, tag='object at a 16-byte boundary + %d' % off)
    if prop != 'C03':
        # a host whose long is 32 bits wide (LLP64; constants like 1UL behave as on every 32-bit target)
        from . import llp64
        bdir = os.path.join(core.ROOT, 'build', prop)
        try:
            exel = llp64.build(bdir, os.path.join(bdir, 'gen'), core.build_native(os.path.join(bdir, 'native'), os.path.join(bdir, 'gen'), ['common.c', 'explore_fields.c']), 'explore_fields')
            res = core.run_slices(exel, ['--suite', prop, '--tier', 'lite' if tier == 'quick' else 'quick'], timeout=timeout, result=res, tag='llp64 (32-bit long)')
        except core.WorldUnavailable as e:
            res.incomplete.append('world left out: ' + str(e))
    if prop == 'C12':
        alias_contexts(res, os.path.join(core.ROOT, 'build', prop))
    # an ILP32 host: pointers, size_t and long 32 bits wide, 64-bit integers aligned to four bytes, x87 arithmetic
    from . import ilp32
    bdir = os.path.join(core.ROOT, 'build', prop)
    try:
        exei = ilp32.build(bdir, os.path.join(bdir, 'gen'), ['common.c', 'explore_fields.c'], 'explore_fields')
        res = core.run_slices(exei, ['--suite', prop, '--tier', 'lite' if tier == 'quick' else 'quick'], timeout=timeout, result=res, tag='ilp32 (gcc -m32, freestanding)')
    except core.WorldUnavailable as e:
        res.incomplete.append('world left out: ' + str(e))
    if prop == 'C03':
        # guard pages only watch headers that end at a page boundary; the instrumented build (every load/store of the
        # library hooked, see C16) checks each access against the header extent at every address residue mod 8
        from . import c16
        for opt in ('-O0', '-O2'):
            xe = c16.build(os.path.join(core.ROOT, 'build', prop, 'instr'), opt)
            p = subprocess.run([xe, '--extent'], stdout=subprocess.PIPE, stderr=subprocess.PIPE, text=True)
            if p.returncode != 0 or not res.parse(p.stdout, 'instrumented' + opt):
                core.die_infra('instrumented extent pass failed: ' + p.stderr[-500:])
    if prop == 'C03':
        # the same compile-time facts in a C++ translation unit (one per header: sizeof/offsetof must not depend on the language)
        import json as _json
        spec = _json.load(open(os.path.join(core.ROOT, 'spec', 'layouts.json')))
        for fm in spec['formats']:
            tu = '#include <cstddef>\n#include "%s"\nstatic_assert(sizeof(%s) == %d, "sizeof");\nstatic_assert(offsetof(%s, payload) == %d, "offsetof payload");\nint vt_c03;\n' % (fm['header'], fm['type'], fm['len'], fm['type'], fm['len'])
            p = subprocess.run(['g++', '-std=gnu++11', '-x', 'c++', '-fsyntax-only', '-w', '-Wno-invalid-offsetof', *core.lib_flags(), '-'], input=tu, stdout=subprocess.PIPE, stderr=subprocess.PIPE, text=True)
            res.counters['cases'] = res.counters.get('cases', 0) + 1
            res.counters['transitions'] = res.counters.get('transitions', 0) + 1
            if p.returncode != 0:
                what = 'sizeof' if '"sizeof"' in p.stderr or 'sizeof' in p.stderr.split('static assertion failed')[-1][:40] else 'offsetof-payload'
                res.viol[('C03', '%s:%s differs in a C++ translation unit' % (fm['name'], what))] = {'count': 1, 'case': 'C03:1:%d:0:0:0:0:0' % spec['formats'].index(fm), 'detail': (p.stderr.strip().splitlines() or ['?'])[0][:300], 'tag': 'c++'}
    rule, bounds = RULES[prop]
    unc = [u for u in rep['uncovered'] if u not in core.HANDWRAPPED]
    core.finish(prop, tier, t0, res, rule=rule, bounds=bounds, assumptions=ASSUME,
                recipe={'engine': 'fields', 'suite': prop, 'tier': tier}, replayer=make_replayer(exe, tier),
                extra_cov={'planted_bug_selftest': 'wrong spec row for Can.pad: %d mismatches reported, as required' % planted, 'formats': rep['formats'], 'fields': rep['fields'], 'uncovered_accessors': unc, 'formats_called_with_typed_pointers_only': rep.get('typed_only', [])})


def replay(prop, case):
    exe, _ = build(prop)
    r = subprocess.run([exe, '--tier', os.environ.get('VERIF_REPLAY_TIER', 'quick'), '--case', case])
    return r.returncode
