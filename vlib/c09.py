from .ser import run, replay
