"""C18 (E4): every datagram within k deviations of a well-formed one, delivered
to the real main() of each example listener through the I/O seam, alone and
followed by a well-formed datagram; ASan+UBSan+pattern-initialised locals, one
forked child per sequence, hang watchdog."""
import itertools, json, os, re, struct, time
from . import core, e4
from .e4 import setf, hdr, control, can_msg

MAC = '-i eth0 -d aa:bb:cc:dd:ee:ff'
STREAM = 0xAABBCCDDEEFF0001


# ------------------------------------------------------------------ templates
def gpc_msg(text):
    body = text + b'\0'
    body += bytes((4 - len(body) % 4) % 4)
    h = hdr('Gpc')
    setf(h, 'Gpc', 'acf_msg_length', (8 + len(body)) // 4)
    setf(h, 'Gpc', 'gpc_msg_id', 0x0000C0FFEE01)
    return h + body


def vss_msg(static):
    h = hdr('Vss')
    path = struct.pack('>I', 0x01020304) if static else struct.pack('>H', 13) + b'Vehicle.Speed'
    val = struct.pack('>f', 42.5)
    total = 12 + len(path) + len(val)
    pad = (4 - total % 4) % 4
    setf(h, 'Vss', 'acf_msg_length', (total + pad) // 4)
    setf(h, 'Vss', 'pad', pad)
    setf(h, 'Vss', 'addr_mode', 1 if static else 0)
    setf(h, 'Vss', 'vss_datatype', 9)
    return h + path + val + bytes(pad)


def cvf_pdu(nal_len, seq=0):
    h = hdr('Cvf')
    setf(h, 'Cvf', 'tv', 1)
    setf(h, 'Cvf', 'sequence_num', seq)
    setf(h, 'Cvf', 'stream_id', STREAM)
    setf(h, 'Cvf', 'avtp_timestamp', 0x10203040)
    setf(h, 'Cvf', 'format_subtype', 1)
    setf(h, 'Cvf', 'stream_data_length', 4 + nal_len)
    return h + struct.pack('>I', 0x0A0B0C0D) + bytes((0x40 + i) & 0xFF for i in range(nal_len))


def aaf_pdu(seq=0, nsamples=1, stream=STREAM, ts=0x11223344):
    h = hdr('Pcm')
    setf(h, 'Pcm', 'tv', 1)
    setf(h, 'Pcm', 'sequence_num', seq)
    setf(h, 'Pcm', 'stream_id', stream)
    setf(h, 'Pcm', 'avtp_timestamp', ts)
    setf(h, 'Pcm', 'format', 4)
    setf(h, 'Pcm', 'nsr', 5)
    setf(h, 'Pcm', 'channels_per_frame', 2)
    setf(h, 'Pcm', 'bit_depth', 16)
    setf(h, 'Pcm', 'stream_data_length', 4 * nsamples)
    return h + bytes((0x21 + i) & 0xFF for i in range(4 * nsamples))


CRF_T0 = 1700000000 * 10**9 + 5 * 125000
NOW = 1700000000 * 10**9 + 123456789      # the seam's fixed clock
SEC = [((NOW // 10**9 + 1) * 10**9 + d) % (1 << 32) for d in (-1, 0, 1)] + [((NOW // 10**9 + 3) * 10**9) % (1 << 32), 0, 0xFFFFFFFF, NOW % (1 << 32)]


def crf_pdu(seq=0, t0=CRF_T0):
    h = hdr('Crf')
    setf(h, 'Crf', 'sequence_num', seq)
    setf(h, 'Crf', 'type', 1)
    setf(h, 'Crf', 'stream_id', 0xAABBCCDDEEFF0002)
    setf(h, 'Crf', 'base_frequency', 48000)
    setf(h, 'Crf', 'crf_data_length', 48)
    setf(h, 'Crf', 'timestamp_interval', 160)
    return h + b''.join(struct.pack('>Q', t0 + i * 160 * 20833) for i in range(6))


class T:
    """a well-formed datagram plus the places where deviations apply"""
    def __init__(self, label, data, bounds, fields, payload_from):
        self.label, self.data, self.bounds, self.fields, self.payload_from = label, bytes(data), bounds, fields, payload_from


def lengths(exact, maxv):
    # ... and values that equal the exact one after truncation to 8 bits, plus the 8-bit boundary itself
    return sorted(({0, 1, 2, 3, max(exact - 1, 0), exact + 1, exact + 4, maxv - 1, maxv, exact + 256, exact + 512, 255, 256, 257} - {exact}) & set(range(maxv + 1)))


def can_templates(udp, fd):
    out = []
    off = 4 if udp else 0
    for cf in ('tscf', 'ntscf'):
        hl = 24 if cf == 'tscf' else 12
        # the third shape carries more than 256 bytes of ACF data in more than ten messages, with a message boundary exactly at byte 256
        for sizes in (([12] if fd else [8]), ([3, 16] if fd else [3, 8]), ([64, 64, 64, 0, 12, 64, 8, 1, 64, 20, 5, 48] if fd else [8] * 10 + [0, 8, 3, 8, 1, 5])):
            msgs = [can_msg(0x123 + i, bytes(range(1, n + 1)), fdf=fd) for i, n in enumerate(sizes)]
            pl = b''.join(msgs)
            d = control(cf, pl, udp)
            bounds = [off, off + hl]
            fields = [('Tscf' if cf == 'tscf' else 'Ntscf', 'stream_data_length' if cf == 'tscf' else 'ntscf_data_length', off, lengths(len(pl), 65535 if cf == 'tscf' else 2047)),
                      ('CommonHeader', 'subtype', off, [0x05 if cf == 'ntscf' else 0x82, 0x00, 0xFF, 0x02]),
                      ('CommonHeader', 'version', off, [1, 7]), ('CommonHeader', 'h', off, [0])]
            p = off + hl
            for mi, m in enumerate(msgs):
                if len(msgs) <= 2 or mi in (0, 10, len(msgs) - 1):      # long trains: deviations in the first, the eleventh and the last message
                    bounds += [p + 16, p + len(m)]
                    fields += [('Can', 'acf_msg_length', p, lengths(len(m) // 4, 511) if len(msgs) <= 2 else [0, len(m) // 4 + 1, 511]), ('Can', 'pad', p, [0, 1, 2, 3] if len(msgs) <= 2 else [3]),
                               ('Can', 'acf_msg_type', p, [2, 0, 0x7F] if len(msgs) <= 2 else [0x7F])] + ([('Can', 'eff', p, [0, 1]), ('Can', 'can_identifier', p, [0x1FFFFFFF])] if len(msgs) <= 2 else [])
                p += len(m)
            out.append(T('%s/%dmsg' % (cf, len(msgs)), d, bounds, fields, off + hl + 16))
            out[-1].expect_can = [(0x123 + i, bytes(range(1, n + 1))) for i, n in enumerate(sizes)]
    return out


def cf_templates(udp, acf, fmt, extra_fields, tag=''):
    out = []
    off = 4 if udp else 0
    for cf in ('tscf', 'ntscf'):
        hl = 24 if cf == 'tscf' else 12
        d = control(cf, acf, udp)
        F = e4.spec()[fmt]
        fields = [('Tscf' if cf == 'tscf' else 'Ntscf', 'stream_data_length' if cf == 'tscf' else 'ntscf_data_length', off, lengths(len(acf), 65535 if cf == 'tscf' else 2047)),
                  ('CommonHeader', 'subtype', off, [0x05 if cf == 'ntscf' else 0x82, 0x00, 0xFF]), ('CommonHeader', 'version', off, [1]),
                  (fmt, 'acf_msg_length', off + hl, lengths(len(acf) // 4, 511)), (fmt, 'acf_msg_type', off + hl, [1, 0, 0x7F])]
        fields += [(f[0], f[1], off + hl + f[2], f[3]) for f in extra_fields]
        out.append(T(cf + tag, d, [off, off + hl, off + hl + F['len'], len(d)], fields, off + hl + F['len']))
    return out


STATELESS = ('acf-can-listener', 'hello-world-listener', 'acf-vss-listener')   # handling of a datagram is a function of that datagram alone

LISTENERS = {
    'acf-can-listener': {'modes': [('udp/classic', '-u -p 17220 --canif vcan0', '-', (1, 0)), ('raw/classic', MAC + ' --canif vcan0', '-', (0, 0)),
                                   ('udp/fd', '-u -p 17220 --canif vcan0', 'fd', (1, 1)), ('raw/fd', MAC + ' --canif vcan0', 'fd', (0, 1))],
                         'templates': lambda m: can_templates(*m)},
    'hello-world-listener': {'modes': [('udp', '-u -p 17220', '-', 1), ('raw', MAC, '-', 0)],
                             'templates': lambda udp: cf_templates(udp, gpc_msg(b'Hello 1722'), 'Gpc', [])},
    'acf-vss-listener': {'modes': [('udp', '-u -p 17220', '-', 1), ('raw', 'eth0 aa:bb:cc:dd:ee:ff', '-', 0)],
                         'templates': lambda udp: cf_templates(udp, vss_msg(0), 'Vss', [('Vss', 'addr_mode', 0, [1, 2, 3]), ('Vss', 'vss_datatype', 0, [0x0B, 0x8B, 0xFF]), ('Vss', 'pad', 0, [3])], '/interop') +
                                                  cf_templates(udp, vss_msg(1), 'Vss', [('Vss', 'addr_mode', 0, [0, 2]), ('Vss', 'vss_datatype', 0, [0x0A, 0x80])], '/static')},
    'cvf-listener': {'modes': [('raw', MAC, '-', 0)],
                     'templates': lambda m: [T('nal%d' % n, cvf_pdu(n), [24, 28, 28 + n],
                                               [('Cvf', 'stream_data_length', 0, lengths(4 + n, 65535) + [1404, 1405]), ('Cvf', 'subtype', 0, [2, 0xFF]), ('Cvf', 'version', 0, [1]), ('Cvf', 'tv', 0, [0]),
                                                ('Cvf', 'stream_id', 0, [STREAM + 1]), ('Cvf', 'format', 0, [0, 3]), ('Cvf', 'format_subtype', 0, [0, 2]), ('Cvf', 'sequence_num', 0, [7]), ('Cvf', 'avtp_timestamp', 0, SEC)], 28) for n in (32, 1400)]},
    'aaf-listener': {'modes': [('raw', MAC, '-', 0)],
                     'templates': lambda m: [T('pcm', aaf_pdu(), [24, 28],
                                               [('Pcm', 'stream_data_length', 0, lengths(4, 65535)), ('Pcm', 'subtype', 0, [3, 0xFF]), ('Pcm', 'version', 0, [1]), ('Pcm', 'tv', 0, [0]), ('Pcm', 'sp', 0, [1]),
                                                ('Pcm', 'stream_id', 0, [STREAM + 1]), ('Pcm', 'format', 0, [2, 0xFF]), ('Pcm', 'nsr', 0, [0, 15]), ('Pcm', 'channels_per_frame', 0, [1, 1023]), ('Pcm', 'bit_depth', 0, [24]),
                                                ('Pcm', 'sequence_num', 0, [9]), ('Pcm', 'avtp_timestamp', 0, SEC)], 24)]},
    'crf-listener': {'modes': [('listener', '-o listener -i eth0 -c aa:bb:cc:dd:ee:01 -a aa:bb:cc:dd:ee:02', '-', 'l'), ('talker', '-o talker -i eth0 -c aa:bb:cc:dd:ee:01 -a aa:bb:cc:dd:ee:02 -m 2', '-', 't')],
                     'templates': lambda m: [T('crf', crf_pdu(), [20, 28, 68],
                                               [('Crf', 'crf_data_length', 0, lengths(48, 65535)), ('Crf', 'subtype', 0, [2, 0xFF, 0x00]), ('Crf', 'version', 0, [1]), ('Crf', 'sv', 0, [0]), ('Crf', 'fs', 0, [1]),
                                                ('Crf', 'type', 0, [0, 4]), ('Crf', 'stream_id', 0, [STREAM]), ('Crf', 'pull', 0, [1]), ('Crf', 'base_frequency', 0, [44100, 0]), ('Crf', 'sequence_num', 0, [5]),
                                                ('Crf', 'timestamp_interval', 0, [0])], 20)] +
                                            ([T('aaf', aaf_pdu(nsamples=6, ts=CRF_T0 % (1 << 32)), [24, 48],
                                                [('Pcm', 'stream_data_length', 0, lengths(24, 65535)), ('Pcm', 'subtype', 0, [4, 0xFF]), ('Pcm', 'tv', 0, [0]), ('Pcm', 'avtp_timestamp', 0, [0, 1, (CRF_T0 + 125000) % (1 << 32)]),
                                                 ('Pcm', 'stream_id', 0, [STREAM + 5]), ('Pcm', 'format', 0, [2]), ('Pcm', 'sequence_num', 0, [3])], 24)] if m == 'l' else [])},
}


def vss_big(n=1400, value=1.5):
    """interop-mode VSS message with an n-character path"""
    h = hdr('Vss')
    name = (b'Vehicle.Cabin.Seat.Row1.Pos1.' * 60)[:n]
    path = struct.pack('>H', len(name)) + name
    val = struct.pack('>f', value)
    total = 12 + len(path) + len(val)
    pad = (4 - total % 4) % 4
    setf(h, 'Vss', 'acf_msg_length', (total + pad) // 4)
    setf(h, 'Vss', 'pad', pad)
    setf(h, 'Vss', 'addr_mode', 0)
    setf(h, 'Vss', 'vss_datatype', 9)
    return h + path + val + bytes(pad)


def size_sweeps(name, L):
    """well-formed datagrams over every value of the size parameter a listener's buffers depend on (path length, text
    length, NAL length, payload length of the last CAN message of a datagram filled to exactly 1500 bytes):
    (sid, args, presets, events, mode label, description)"""
    out = []
    for mlabel, args, presets, mparam in L['modes']:
        udp = mparam[0] if isinstance(mparam, tuple) else mparam
        items = []
        if name == 'acf-vss-listener':
            for cf in ('tscf', 'ntscf'):
                room = 1500 - (4 if udp else 0) - (24 if cf == 'tscf' else 12) - 12 - 2 - 4 - 3
                for n in range(0, room + 1):
                    for value in ((1.5,) if n % 16 and n < room - 24 else (1.5, 3.4028234e38, -3.4028234e38, -1e-38)):
                        f32 = struct.unpack('>f', struct.pack('>f', value))[0]
                        line = 'VSS Path: %s, VSS Value: %f' % ((b'Vehicle.Cabin.Seat.Row1.Pos1.' * 60)[:n].decode(), f32)
                        items.append(('%s path length %d value %g' % (cf, n, value), control(cf, vss_big(n, value), udp), None, line))
        elif name == 'hello-world-listener':
            for cf in ('tscf', 'ntscf'):
                room = 1500 - (4 if udp else 0) - (24 if cf == 'tscf' else 12) - 8 - 4
                for n in range(0, room + 1, 1):
                    text = (b'Hello 1722 ' * 140)[:n]
                    m = gpc_msg(text)
                    # if the listener prints the message at all, what it prints is the message's text and identifier
                    line = '%s : GPC Code %d' % (text.decode(), 0x0000C0FFEE01)
                    items.append(('%s text length %d' % (cf, n), control(cf, m, udp), None, '?' + line))
        elif name == 'cvf-listener':
            for n in list(range(0, 1473)):
                items.append(('NAL length %d' % n, cvf_pdu(n)))
        elif name == 'acf-can-listener':
            fd = mparam[1]
            for cf in ('tscf', 'ntscf'):
                hl = (4 if udp else 0) + (24 if cf == 'tscf' else 12)
                for ln in range(0, (64 if fd else 8) + 1):
                    last = can_msg(0x321, bytes(range(1, ln + 1)), fdf=fd)
                    # the datagram ends with this message; once as the only message, once filled to exactly 1500 bytes
                    items.append(('%s single message payload %d' % (cf, ln), control(cf, last, udp), [(0x321, bytes(range(1, ln + 1)))]))
                    room = 1500 - hl - len(last)
                    fill, want = [], []
                    k = 0
                    while room >= 16:
                        fl = min((64 if fd else 8), (room - 16) // 4 * 4)
                        if room - 16 - fl and room - 16 - fl < 16:
                            fl = max(0, fl - 16)
                        m = can_msg(0x100 + k, bytes((k + i) & 0xFF for i in range(fl)), fdf=fd)
                        fill.append(m); want.append((0x100 + k, bytes((k + i) & 0xFF for i in range(fl)))); room -= len(m); k += 1
                    if room == 0:
                        items.append(('%s 1500-byte datagram, last message payload %d' % (cf, ln), control(cf, b''.join(fill) + last, udp), want + [(0x321, bytes(range(1, ln + 1)))]))
                # as many of the smallest messages (no payload) as a 1500-byte datagram holds, and a few less
                maxk = (1500 - hl) // 16
                for k in sorted({maxk, maxk - 1, maxk - 2, 92, 91, 64, 65}):
                    if k < 1 or hl + 16 * k > 1500:
                        continue
                    msgs = [can_msg(0x200 + (i & 0xFF), b'', fdf=fd) for i in range(k)]
                    items.append(('%s %d messages without payload' % (cf, k), control(cf, b''.join(msgs), udp), [(0x200 + (i & 0xFF), b'') for i in range(k)]))
                # consistent messages whose payload is longer than any CAN frame: nothing may be written for them
                for ln in list(range((64 if fd else 8) + 1, 300)) + [511, 512, 767, 768, 1023, 1024, 1279, 1280]:
                    if hl + 16 + ln + 3 > 1500:
                        continue
                    big = can_msg(0x321, bytes((i * 3 + 1) & 0xFF for i in range(ln)), fdf=fd)
                    ok = can_msg(0x322, b'\x07', fdf=fd)
                    items.append(('%s message with a %d-byte payload, then a regular one' % (cf, ln), control(cf, big + ok, udp), 'nowhere'))
        for it in items:
            desc, d = it[0], it[1]
            if len(d) > 1500:
                continue
            sid = '%s|%s|sweep|%s' % (name, mlabel, desc.replace(' ', '_'))
            out.append((sid, args, presets, ['D' + d.hex()], mlabel, desc, it[2] if len(it) > 2 else None, it[3] if len(it) > 3 else None))
    return out


def stepping(name, mparam, t):
    """how consecutive well-formed datagrams of one stream differ: [(byte offset, width, delta)]"""
    def seq_at(fmt, base):
        for f in e4.spec()[fmt]['flist']:
            if f['name'] == 'sequence_num':
                return (base + f['off'] // 8, 1, 1)
    if name == 'cvf-listener':
        return [seq_at('Cvf', 0)]
    if name == 'aaf-listener' or t.label == 'aaf':
        return [seq_at('Pcm', 0)]
    if name == 'crf-listener':
        return [seq_at('Crf', 0)] + [(20 + 8 * i, 8, 6 * 160 * 20833) for i in range(6)]
    udp = mparam[0] if isinstance(mparam, tuple) else mparam
    off = 4 if udp else 0
    return ([(0, 4, 1)] if udp else []) + [seq_at('Tscf' if t.label.startswith('tscf') else 'Ntscf', off)]


def long_runs(name, L, n):
    """conversations of n consecutive well-formed datagrams of one template, followed by one well-formed datagram of every
    template of the mode: (sid, args, presets, events, template label)"""
    out = []
    for mlabel, args, presets, mparam in L['modes']:
        temps = list(L['templates'](mparam))
        if name == 'acf-vss-listener':
            temps += cf_templates(mparam, vss_big(), 'Vss', [], '/interop-1400')
        for t in temps:
            steps = stepping(name, mparam, t)
            st = ''.join('/%d.%d.%d' % x for x in steps)
            run = 'Dx%d%s:%s' % (n, st, t.data.hex())

            def cont(i):
                d = bytearray(t.data)
                for off, w, delta in steps:
                    d[off:off + w] = ((int.from_bytes(d[off:off + w], 'big') + delta * i) % (1 << (8 * w))).to_bytes(w, 'big')
                return 'D' + d.hex()
            # one datagram of every other template of the mode (for the CRF listener: an AAF datagram, which uses up the
            # recovered timestamps), then the stream of the run continues
            tail = ['D' + u.data.hex() for u in temps if u is not t] + [cont(n), cont(n + 1)]
            out.append(('%s|%s|%s|long%d' % (name, mlabel, t.label, n), args, presets, [run] + tail, mlabel, t.label))
    return out


def primer(t):
    """a maximal datagram that leaves adversarial bytes in a receive buffer: the template with its last structure
    repeated up to 1500 bytes and every length-like field of the control header at its maximum"""
    d = bytearray(t.data)
    tail = bytes(d[t.bounds[-2] if len(t.bounds) >= 2 else 0:]) or b'\xff'
    unit = bytes(d[(t.bounds[1] if len(t.bounds) > 1 else 0):]) or tail
    while len(d) < 1500:
        d += unit
    d = d[:1500]
    for fmt, field, base, vals in t.fields:
        if 'length' in field and fmt in ('Tscf', 'Ntscf'):
            setf(d, fmt, field, max(vals), base)
    return bytes(d)


def deviations(t):
    """menu of single deviations: (name, class, function bytes->bytes)"""
    out = []
    cuts = {0, 1, len(t.data) - 1}
    for b in t.bounds:
        cuts |= {b - 1, b, b + 1}
    for c in sorted(x for x in cuts if 0 <= x < len(t.data)):
        out.append(('truncate@%d' % c, 'truncate', lambda d, c=c: d[:c]))
    for fmt, field, base, vals in t.fields:
        for v in vals:
            def f(d, fmt=fmt, field=field, base=base, v=v):
                b = bytearray(d)
                F = e4.spec()[fmt]
                if len(b) < base + F['len']:
                    return bytes(b)
                setf(b, fmt, field, v, base)
                return bytes(b)
            out.append(('%s.%s@%d=%#x' % (fmt, field, base, v), 'field:%s.%s' % (fmt, field), f))
    for name, fill in (('fill00', 0x00), ('fillFF', 0xFF), ("fill'A'", 0x41)):
        out.append((name, 'fill', lambda d, fill=fill, p=t.payload_from: d[:p] + bytes([fill]) * max(0, len(d) - p)))
    out.append(('oversize1500', 'oversize', lambda d: d + b'\xff' * max(0, 1500 - len(d))))
    out.append(('oversize1600', 'oversize', lambda d: d + b'\x41' * max(0, 1600 - len(d))))
    out.append(("pad'A'to1500", 'oversize', lambda d: d + b'A' * max(0, 1500 - len(d))))
    return out


def can_candidates(d, udp, fd):
    """every CAN frame a datagram can be said to carry, by a reading of the wire format that is independent of the
    listener's acceptance policy: (identifier, data) of each full CAN message that lies inside the announced ACF data and
    inside the datagram and whose payload fits a frame. A frame the listener writes must be one of these, in order."""
    off = 4 if udp else 0
    out = []
    if len(d) < off + 4:
        return out
    st = d[off]
    if st == 0x05:
        hl = 24
        if len(d) < off + hl:
            return out
        ann = e4.getf(d, 'Tscf', 'stream_data_length', off)
    elif st == 0x82:
        hl = 12
        if len(d) < off + hl:
            return out
        ann = e4.getf(d, 'Ntscf', 'ntscf_data_length', off)
    else:
        return out
    p, end = off + hl, min(len(d), off + hl + ann)
    while p + 16 <= end:
        typ, ln = d[p] >> 1, (((d[p] & 1) << 8) | d[p + 1]) * 4
        if typ != 1 or ln < 16 or p + ln > end:
            break
        pad = (d[p + 2] >> 6) & 3
        pl = ln - 16 - pad
        if 0 <= pl <= (64 if fd else 8):
            out.append((int.from_bytes(d[p + 12:p + 16], 'big') & 0x1FFFFFFF, bytes(d[p + 16:p + 16 + pl])))
        p += ln
    return out


def frames_from_nowhere(evs, eff, udp, fd):
    """-> description of the first CAN frame written that no message of its datagram describes, or None"""
    dgs = [bytes.fromhex(e[1:]) for e in evs if e[:1] in 'DEB' and not e.startswith('Dx')]
    if len(dgs) != len(evs):
        return None
    segs, _ = effect_tokens(eff)
    for dg, seg in zip(dgs, segs):
        cand = can_candidates(dg, udp, fd)
        k = 0
        for tok in seg:
            if not tok.startswith('CAN '):
                continue
            raw = bytes.fromhex(tok[4:])
            fr = (int.from_bytes(raw[:4], 'little') & 0x1FFFFFFF, raw[8:8 + raw[4]])
            while k < len(cand) and cand[k] != fr:
                k += 1
            if k == len(cand):
                return 'frame id=0x%x len=%d data=%s; the datagram carries %s' % (fr[0], len(fr[1]), fr[1].hex(), [(hex(c[0]), len(c[1])) for c in cand][:6])
            k += 1
    return None


def classify2(st, eff, rep):
    """e4.classify plus the loop-iteration invariant of the seam"""
    return e4.classify(st, rep) or ('the stack grows with every datagram handled' if 'STACKGROWTH' in eff else None) or \
        ('reads a timer that is not pending (blocks while datagrams wait)' if 'TIMERBLOCK' in eff else None)


POLLING = ('aaf-listener', 'cvf-listener', 'crf-listener')       # receive loops that poll() a socket and a timer


def conversations(name, L, depth):
    """all sequences up to `depth` over {datagram variants} x {poll answers D, E, B}: (sid, args, presets, events, mode, description)"""
    out = []
    for mlabel, args, presets, mparam in L['modes']:
        temps = list(L['templates'](mparam))
        variants = []
        for t in temps:
            variants.append((t.label, t.data))
            for fmt, field, base, vals in t.fields:
                if field == 'avtp_timestamp':
                    for v in (vals[0], vals[-1] if len(vals) < 4 else vals[3]):       # just before the seam's next full second / two seconds ahead
                        b = bytearray(t.data); setf(b, fmt, field, v, base)
                        variants.append(('%s/ts=%#x' % (t.label, v), bytes(b)))
                if field == 'stream_id':
                    b = bytearray(t.data); setf(b, fmt, field, vals[0], base)
                    variants.append((t.label + '/other-stream', bytes(b)))
            variants.append((t.label + '/truncated', t.data[:len(t.data) - 1]))
        # position-dependent payload byte so that the order of effects is visible
        symbols = [(k, lab, d) for k in 'DEB' for lab, d in variants]
        for n in range(1, depth + 1):
            for seq in itertools.product(range(len(symbols)), repeat=n):
                # sequences that differ only in the poll answer of the first datagram are the same (no timer can be pending yet)
                if symbols[seq[0]][0] != 'D':
                    continue
                evs, desc, want = [], [], []
                for pos, si in enumerate(seq):
                    k, lab, d = symbols[si]
                    accepted = not lab.endswith(('/other-stream', '/truncated'))
                    if accepted and name in ('aaf-listener', 'cvf-listener'):
                        # reference model of the presentation side: every accepted datagram is presented once, in arrival order
                        d = bytearray(d)
                        at = len(d) - 1 if name == 'aaf-listener' else 28
                        d[at] = 0x80 + pos
                        d = bytes(d)
                        pay = d[24:] if name == 'aaf-listener' else d[28:]
                        want.append('OUT %s(%d)' % (pay[:64].hex(), len(pay)))
                    evs.append(k + d.hex())
                    desc.append('%s:%s' % (k, lab))
                out.append(('%s|%s|conv|%s' % (name, mlabel, '.'.join(map(str, seq))), args, presets, evs, mlabel, ' '.join(desc), want if name in ('aaf-listener', 'cvf-listener') else None))
    return out


def effect_tokens(effects):
    """(per-datagram token lists: log tokens after each RECV plus that datagram's share of stdout, whole stdout text)"""
    m = re.match(r'^(.*)STDOUT\[(.*)\]$', effects, re.S)
    log, out = (m.group(1), m.group(2)) if m else (effects, '')
    segs, cur, offs = [], None, []
    for tok in log.split(';'):
        if tok.startswith('RECV'):
            cur = []
            segs.append(cur)
            mm = re.search(r'@(\d+)', tok)
            offs.append(int(mm.group(1)) if mm else 0)
        elif cur is not None and tok and not tok.startswith('TIMER'):
            cur.append(tok)
    for i, seg in enumerate(segs):
        a = offs[i]
        b2 = offs[i + 1] if i + 1 < len(offs) else len(out)
        txt = out[a:b2].strip()
        if txt:
            seg.append('STDOUT:' + txt)
    return segs, out


def run(prop, tier):
    t0 = time.time()
    b = core.fresh_dir(os.path.join(core.ROOT, 'build', 'C18'))
    kmax = 2 if tier == 'quick' else 3
    nlong = 3000 if tier == 'quick' else 20000
    nlongdg = 0
    convdepth = 3 if tier == 'quick' else 4
    nconv = 0
    planted = e4.selftest(b)
    res = core.Result()
    table = []      # replay table
    nseq = 0
    dist = set()
    masked = 0
    samples = []
    for name, L in LISTENERS.items():
        exe = e4.build_program(b, name)
        exe_zero = e4.build_program(b, name, init='zero')
        exe_plain = e4.build_program(b, name, init='none') if name in STATELESS else None
        scripts, meta = [], {}
        if name == 'acf-can-listener' and not e4.fd_available(exe, L['modes'][2][1]):
            # (the program's own --fd option does not reach the receive loop - on the pinned tree it dereferences a null
            # argument while parsing options, which is outside this property - and there is no mode variable to set)
            res.incomplete.append('acf-can-listener: FD mode cannot be entered on this tree, its two FD modes are not explored')
            L = dict(L, modes=[m for m in L['modes'] if m[2] != 'fd'])
        for mlabel, args, presets, mparam in L['modes']:
            temps = L['templates'](mparam)
            # a well-formed conversation for this listener: for CRF in listener mode the AAF datagram follows a CRF datagram
            for ti, t in enumerate(temps):
                prefix = []
                if name == 'crf-listener' and t.label == 'aaf':
                    prefix = ['D' + temps[0].data.hex()]
                good = 'D' + t.data.hex()
                sid = '%s|%s|%s|good' % (name, mlabel, t.label)
                assert sid not in meta, 'duplicate template label ' + sid
                scripts.append((sid, args, presets, prefix + [good]))
                meta[sid] = (name, mlabel, t.label, 'well-formed', 'good', None)
                devs = deviations(t)
                combos = [(d,) for d in devs]
                if kmax >= 2:
                    # pairs of deviations of different classes
                    combos += [(d1, d2) for d1, d2 in itertools.combinations(devs, 2) if d1[1] != d2[1]]
                if kmax >= 3 and name in ('acf-can-listener', 'acf-vss-listener', 'hello-world-listener', 'cvf-listener'):
                    # triples: three different classes, one value per length-like field class kept small (0, exact+1, max)
                    small = [d for d in devs if d[1] != 'truncate' or d[0] in ('truncate@%d' % (len(t.data) - 1),)]
                    small = [d for i, d in enumerate(small) if d[1].startswith('field') is False or i % 3 == 0]
                    combos += [c for c in itertools.combinations(small, 3) if len({x[1] for x in c}) == 3]
                for ci, combo in enumerate(combos):
                    data = t.data
                    for d in sorted(combo, key=lambda d: d[1] == 'truncate'):      # truncation last
                        data = d[2](data)
                    if data == t.data:
                        continue
                    dn = '+'.join(d[0] for d in combo)
                    dc = '+'.join(sorted({d[1].split(':')[0] + (':' + d[1].split(':')[1].split('.')[1] if ':' in d[1] else '') for d in combo}))
                    bad = 'D' + data.hex()
                    seqs = [('alone', prefix + [bad]), ('then-good', prefix + [bad, good])]
                    if name in STATELESS and len(combo) == 1:
                        seqs.append(('primed', ['D' + primer(t).hex(), bad]))
                        seqs.append(('primedZ', ['D' + ('00' * 1500), bad]))
                    for seqkind, evs in seqs:
                        sid = '%s|%s|%s|%d|%s' % (name, mlabel, t.label, ci, seqkind)
                        scripts.append((sid, args, presets, evs))
                        meta[sid] = (name, mlabel, t.label, dn, seqkind, dc)
        scripts_by_id = {x[0]: x for x in scripts}
        primed_scripts = [x for x in scripts if x[0].endswith(('|primed', '|primedZ'))]
        scripts = [x for x in scripts if not x[0].endswith(('|primed', '|primedZ'))]
        results = e4.run_batch(exe, scripts)
        nseq += len(scripts)
        if primed_scripts:
            # locals not auto-initialised: the receive buffer keeps the previous datagram's bytes, as in a normal build
            results.update(e4.run_batch(exe_plain, primed_scripts))
            nseq += len(primed_scripts)
        # the same scripts with zero- instead of pattern-initialised locals: any difference in status or
        # effects means the behaviour depends on an uninitialised value
        results_zero = e4.run_batch(exe_zero, scripts)
        nseq += len(scripts)
        for sid in results_zero:
            a, z = results[sid], results_zero[sid]
            if (a[0], a[1]) != (z[0], z[1]) and not e4.classify(a[0], a[2]) and not e4.classify(z[0], z[2]):
                n_, mlabel, tl, dn, kind, dc = meta[sid]
                key = '%s: behaviour depends on an uninitialised value' % name
                e = res.viol.setdefault(('C18', key), {'count': 0, 'case': sid, 'detail': '', 'tag': '', 'modes': set(), 'devs': set()})
                e['count'] += 1
                e['modes'].add(mlabel); e['devs'].add(dc or 'well-formed')
                if not e['detail']:
                    e['detail'] = 'first: mode %s, template %s, deviation %s (%s): with pattern-initialised locals %s %s, with zero-initialised locals %s %s' % (mlabel, tl, dn, kind, a[0], a[1][:120], z[0], z[1][:120])
            elif e4.classify(z[0], z[2]) and not e4.classify(a[0], a[2]):
                n_, mlabel, tl, dn, kind, dc = meta[sid]
                key = '%s: %s (only with zero-initialised locals: depends on an uninitialised value)' % (name, e4.classify(z[0], z[2]))
                e = res.viol.setdefault(('C18', key), {'count': 0, 'case': sid, 'detail': 'first: mode %s, template %s, deviation %s (%s): %s' % (mlabel, tl, dn, kind, z[2][:300] or z[0]), 'tag': '', 'modes': set(), 'devs': set()})
                e['count'] += 1
                e['modes'].add(mlabel); e['devs'].add(dc or 'well-formed')
        # baseline effects of the well-formed datagram per (mode, template)
        base = {}
        for sid, (n_, mlabel, tl, dn, kind, dc) in meta.items():
            if kind == 'good':
                st, eff, rep = results[sid]
                segs, out = effect_tokens(eff)
                cls = e4.classify(st, rep)
                base[(mlabel, tl)] = (segs[-1] if segs else [], out, cls)
                if cls:
                    key = '%s: well-formed datagram: %s' % (name, cls)
                    e = res.viol.setdefault(('C18', key), {'count': 0, 'case': sid, 'detail': 'mode %s template %s: %s' % (mlabel, tl, rep[:300]), 'tag': ''})
                    e['count'] += 1
                elif getattr([t for ml, a_, p_, mp in L['modes'] if ml == mlabel for t in L['templates'](mp) if t.label == tl][0], 'expect_can', None) is not None:
                    # reference model of the CAN side: one frame per ACF message, same identifier, length and data, same order
                    want = [t for ml, a_, p_, mp in L['modes'] if ml == mlabel for t in L['templates'](mp) if t.label == tl][0].expect_can
                    got = []
                    for tok in (segs[-1] if segs else []):
                        if tok.startswith('CAN '):
                            raw = bytes.fromhex(tok[4:])
                            got.append((int.from_bytes(raw[:4], 'little') & 0x1FFFFFFF, raw[8:8 + raw[4]]))
                    if got != want:
                        key = '%s: well-formed datagram: CAN frames written differ from the messages carried' % name
                        e = res.viol.setdefault(('C18', key), {'count': 0, 'case': sid, 'detail': 'mode %s template %s: %d messages carried, %d frames written; first difference at message %d' % (mlabel, tl, len(want), len(got), next((i for i, (a_, b_) in enumerate(zip(want, got)) if a_ != b_), min(len(want), len(got)))), 'tag': ''})
                        e['count'] += 1
                elif not (segs and segs[-1]) and not out.strip():
                    if name not in ('crf-listener',):
                        key = '%s: well-formed datagram has no effect' % name
                        e = res.viol.setdefault(('C18', key), {'count': 0, 'case': sid, 'detail': 'mode %s template %s: %s' % (mlabel, tl, eff[:200]), 'tag': ''})
                        e['count'] += 1
        for sid, (n_, mlabel, tl, dn, kind, dc) in meta.items():
            if kind == 'good':
                continue
            st, eff, rep = results[sid]
            dist.add((name, st, eff[:60]))
            if base[(mlabel, tl)][2]:
                masked += 1          # the listener already fails on well-formed traffic: nothing behind that point is explored
                continue
            cls = classify2(st, eff, rep)
            if not cls and name == 'acf-can-listener':
                mp_ = [mp for ml, a_, p_, mp in L['modes'] if ml == mlabel][0]
                ffn = frames_from_nowhere([s_ for s_ in scripts_by_id[sid][3]], eff, mp_[0], mp_[1])
                if ffn:
                    key = '%s: writes a CAN frame that no message of the datagram describes' % name
                    e = res.viol.setdefault(('C18', key), {'count': 0, 'case': sid, 'detail': '', 'tag': '', 'modes': set(), 'devs': set()})
                    e['count'] += 1
                    e['modes'].add(mlabel); e['devs'].add(dc)
                    if not e['detail']:
                        e['detail'] = 'first: mode %s, template %s, deviation %s (%s): %s' % (mlabel, tl, dn, kind, ffn)
                    continue
            if cls:
                key = '%s: %s' % (name, cls)
                e = res.viol.setdefault(('C18', key), {'count': 0, 'case': sid, 'detail': '', 'tag': '', 'modes': set(), 'devs': set()})
                e['count'] += 1
                e['modes'].add(mlabel); e['devs'].add(dc)
                if not e['detail']:
                    e['detail'] = 'first: mode %s, template %s, deviation %s (%s): %s' % (mlabel, tl, dn, kind, rep[:400] or st)
                continue
            if kind == 'primedZ':
                continue
            if kind == 'primed':
                other = results.get(sid + 'Z')
                if other and not e4.classify(other[0], other[2]):
                    sa, oa = effect_tokens(other[1])
                    sp, op = effect_tokens(eff)
                    la = sa[-1] if sa else []
                    lp = sp[-1] if sp else []
                    if la != lp:
                        key = '%s: handling of a datagram depends on bytes left over from an earlier datagram' % name
                        e = res.viol.setdefault(('C18', key), {'count': 0, 'case': sid, 'detail': '', 'tag': '', 'modes': set(), 'devs': set()})
                        e['count'] += 1
                        e['modes'].add(mlabel); e['devs'].add(dc)
                        if not e['detail']:
                            e['detail'] = 'first: mode %s, template %s, deviation %s: after a 1500-byte all-zero datagram -> %s, after a 1500-byte primer with plausible content -> %s' % (mlabel, tl, dn, la[:3], lp[:3])
                continue
            if kind == 'then-good' and name != 'crf-listener':
                segs, out = effect_tokens(eff)
                bsegs, bout, _ = base[(mlabel, tl)]
                want = [x for x in bsegs if not x.startswith('EXPIRY')]
                have = [x for s in segs for x in s]
                missing = [x for x in want if x not in have]
                lines_missing = [l for l in bout.split('  ') if l.strip() and l.strip() not in out]
                if missing or (bout.strip() and bout.strip() not in out and lines_missing):
                    key = '%s: a well-formed datagram after a malformed one is not processed' % name
                    e = res.viol.setdefault(('C18', key), {'count': 0, 'case': sid, 'detail': '', 'tag': '', 'modes': set(), 'devs': set()})
                    e['count'] += 1
                    e['modes'].add(mlabel); e['devs'].add(dc)
                    if not e['detail']:
                        e['detail'] = 'first: mode %s, template %s, deviation %s: expected effect %s / stdout %r, got %s / %r' % (mlabel, tl, dn, want[:2], bout[:60], have[:3], out[:80])
        # long conversations (one deep history per listener, mode and template; all three builds)
        lr = long_runs(name, L, nlong)
        for variant, ex in (('pattern', exe), ('zero', exe_zero)) + ((('none', exe_plain),) if exe_plain else ()):
            rl = e4.run_batch(ex, [x[:4] for x in lr], limit=120.0)
            nseq += len(lr)
            nlongdg += sum(nlong + len(x[3]) - 1 for x in lr)
            for sid, args_, presets_, evs, mlabel, tl in lr:
                st, eff, rep = rl[sid]
                cls = classify2(st, eff, rep)
                if cls:
                    key = '%s: after a long run of well-formed datagrams: %s' % (name, cls)
                    e = res.viol.setdefault(('C18', key), {'count': 0, 'case': sid, 'detail': 'first: mode %s, %d x template %s then one of each template (%s build): %s' % (mlabel, nlong, tl, variant, rep[:300] or (re.search(r'STACKGROWTH[^;]*', eff) or [st])[0]), 'tag': '', 'modes': set(), 'devs': set()})
                    e['count'] += 1
                    e['modes'].add(mlabel); e['devs'].add('long-run')
                    continue
                if name != 'crf-listener':
                    # the datagrams after the run must still have their effect
                    segs, out = effect_tokens(eff)
                    ntail = len(evs) - 1
                    tails = segs[-ntail:] if ntail else []
                    if any(not sg for sg in tails) and not out.strip():
                        key = '%s: a well-formed datagram after a long run of well-formed datagrams is not processed' % name
                        e = res.viol.setdefault(('C18', key), {'count': 0, 'case': sid, 'detail': 'first: mode %s, %d x template %s (%s build): effects of the trailing datagrams %s' % (mlabel, nlong, tl, variant, tails), 'tag': '', 'modes': set(), 'devs': set()})
                        e['count'] += 1
                        e['modes'].add(mlabel); e['devs'].add('long-run')
        scripts_long = {x[0]: [x[1], x[2], x[3]] for x in lr}
        sw = size_sweeps(name, L)
        if sw:
            for variant, ex in (('pattern', exe),) + ((('none', exe_plain),) if exe_plain else ()):
                rs_ = e4.run_batch(ex, [x[:4] for x in sw])
                nseq += len(sw)
                for sid, args_, presets_, evs, mlabel, desc, want, wline in sw:
                    st, eff, rep = rs_[sid]
                    cls = classify2(st, eff, rep)
                    if not cls and wline is not None:
                        # reference for what the listener prints for a well-formed message: the path and the value, one line
                        # (a leading '?': printing is optional, but what is printed must be this)
                        mo = re.search(r'STDOUT\[(.*)\]$', eff, re.S)
                        got_line = (mo.group(1) if mo else '').strip()
                        optional = wline.startswith('?')
                        wline = wline[1:] if optional else wline
                        if got_line != wline.strip() and not (optional and got_line == ''):
                            key = '%s: well-formed datagram of a particular size: printed line differs from the message (path and value)' % name
                            e = res.viol.setdefault(('C18', key), {'count': 0, 'case': sid, 'detail': 'first: mode %s, %s (%s build): printed %r expected %r' % (mlabel, desc, variant, got_line[-70:], wline[-70:]), 'tag': '', 'modes': set(), 'devs': set()})
                            e['count'] += 1
                            e['modes'].add(mlabel); e['devs'].add('size-sweep')
                            continue
                    if cls:
                        key = '%s: well-formed datagram of a particular size: %s' % (name, cls)
                        e = res.viol.setdefault(('C18', key), {'count': 0, 'case': sid, 'detail': 'first: mode %s, %s (%s build): %s' % (mlabel, desc, variant, rep[:300] or st), 'tag': '', 'modes': set(), 'devs': set()})
                        e['count'] += 1
                        e['modes'].add(mlabel); e['devs'].add('size-sweep')
                    elif want == 'nowhere':
                        mp_ = [mp for ml, a_, p_, mp in L['modes'] if ml == mlabel][0]
                        ffn = frames_from_nowhere(evs, eff, mp_[0], mp_[1])
                        if ffn:
                            key = '%s: writes a CAN frame that no message of the datagram describes' % name
                            e = res.viol.setdefault(('C18', key), {'count': 0, 'case': sid, 'detail': 'first: mode %s, %s: %s' % (mlabel, desc, ffn), 'tag': '', 'modes': set(), 'devs': set()})
                            e['count'] += 1
                            e['modes'].add(mlabel); e['devs'].add('size-sweep')
                    elif want is not None:
                        got = []
                        for tok in eff.split(';'):
                            if tok.startswith('CAN '):
                                raw = bytes.fromhex(tok[4:])
                                got.append((int.from_bytes(raw[:4], 'little') & 0x1FFFFFFF, raw[8:8 + raw[4]]))
                        if got != want:
                            key = '%s: well-formed datagram of a particular size: CAN frames written differ from the messages carried' % name
                            e = res.viol.setdefault(('C18', key), {'count': 0, 'case': sid, 'detail': 'first: mode %s, %s: %d messages carried, %d frames written' % (mlabel, desc, len(want), len(got)), 'tag': '', 'modes': set(), 'devs': set()})
                            e['count'] += 1
                            e['modes'].add(mlabel); e['devs'].add('size-sweep')
            scripts_long.update({x[0]: [x[1], x[2], x[3]] for x in sw})
        if name in POLLING:
            # conversations: every sequence up to the depth over datagram variants x poll answers (timer first / datagram first / both ready)
            cv = conversations(name, L, convdepth + (1 if name == 'aaf-listener' and tier != 'quick' else 0))
            rp_, rz_ = e4.run_batch(exe, [x[:4] for x in cv]), e4.run_batch(exe_zero, [x[:4] for x in cv])
            nseq += 2 * len(cv)
            nconv += len(cv)
            for sid, args_, presets_, evs, mlabel, desc, want in cv:
                for variant, rr in (('pattern', rp_), ('zero', rz_)):
                    st, eff, rep = rr[sid]
                    dist.add((name, st, eff[:60]))
                    cls = classify2(st, eff, rep)
                    if cls:
                        key = '%s: in a conversation: %s' % (name, cls)
                        e = res.viol.setdefault(('C18', key), {'count': 0, 'case': sid, 'detail': 'first: mode %s, [%s] (%s build): %s' % (mlabel, desc, variant, rep[:300] or st), 'tag': '', 'modes': set(), 'devs': set()})
                        e['count'] += 1
                        e['modes'].add(mlabel); e['devs'].add('conversation')
                        break
                else:
                    a, z = rp_[sid], rz_[sid]
                    got = [tok for tok in a[1].split(';') if tok.startswith('OUT ')]
                    if want is not None and got != want:
                        key = '%s: in a conversation: accepted datagrams are not each presented once in arrival order' % name
                        e = res.viol.setdefault(('C18', key), {'count': 0, 'case': sid, 'detail': 'first: mode %s, [%s]: %d accepted, %d presented; expected %s got %s' % (mlabel, desc, len(want), len(got), [w[:24] for w in want], [g[:24] for g in got]), 'tag': '', 'modes': set(), 'devs': set()})
                        e['count'] += 1
                        e['modes'].add(mlabel); e['devs'].add('conversation')
                    if (a[0], a[1]) != (z[0], z[1]):
                        key = '%s: behaviour depends on an uninitialised value' % name
                        e = res.viol.setdefault(('C18', key), {'count': 0, 'case': sid, 'detail': 'first: mode %s, conversation [%s]: pattern-initialised locals %s %s, zero-initialised %s %s' % (mlabel, desc, a[0], a[1][:120], z[0], z[1][:120]), 'tag': '', 'modes': set(), 'devs': set()})
                        e['count'] += 1
                        e['modes'].add(mlabel); e['devs'].add('conversation')
            scripts_long.update({x[0]: [x[1], x[2], x[3]] for x in cv})
        if len(samples) < 4:
            samples.append('%s: %d scripts, e.g. %s' % (name, len(scripts), [m for m in list(meta.values())[3:4]]))
        for sid, m in meta.items():
            table.append((sid, [s for s in scripts if s[0] == sid][0][1:]) ) if False else None
        json.dump(dict({s[0]: [s[1], s[2], s[3]] for s in scripts}, **scripts_long), open(os.path.join(b, name + '.scripts.json'), 'w'))
    for k, e in res.viol.items():
        if 'modes' in e:
            e['detail'] += ' | modes: %s | deviation classes: %s' % (sorted(e['modes']), sorted(e['devs'])[:12])
            del e['modes']; del e['devs']
    res.counters = {'cases': nseq, 'transitions': nseq, 'states': len(dist), 'nontrivial': nseq}
    core.finish('C18', tier, t0, res,
                rule='for each of the 6 listeners x each of its modes x each well-formed template: every datagram within %d deviation(s) of the template (truncation at every structural boundary +-1; every length-like field in {0,1,2,3,exact-1,exact+1,exact+4,max-1,max}; discriminators valid/other/invalid; payload fill 00/FF/\'A\'; oversize to 1500/1600), delivered alone and followed by a well-formed datagram, to the real main() under ASan+UBSan with pattern-initialised locals; one forked child per sequence, 2 s watchdog; oracle: no sanitizer report, no signal, no hang, receive loop still polling at the end of the script, and the trailing well-formed datagram has its effect' % kmax,
                bounds={'deviations': kmax, 'sequences': nseq, 'listeners': list(LISTENERS), 'sequences_masked_by_a_failure_on_well_formed_traffic': masked},
                assumptions=['every script runs twice, with pattern- and with zero-initialised locals, and the two outcomes must agree', 'leak detection off (queued samples awaiting presentation are not leaks)', 'a periodic timer fires at most twice between two datagrams (horizon)',
                             'FD mode of the CAN listener is entered by setting its mode variable',
                             'the deviation ball around well-formed traffic, not all 2^12000 datagrams'],
                recipe={'engine': 'c18'}, samples=samples, extra_cov={'planted_bug_selftest': 'toy listener trusting a length byte: reported as ' + planted})


def replay(prop, case):
    b = os.path.join(core.ROOT, 'build', 'C18')
    name = case.split('|')[0]
    f = os.path.join(b, name + '.scripts.json')
    if not os.path.exists(f):
        print('run ./vcheck C18 first (the script table is rebuilt by the check)')
        return 2
    args, presets, evs = json.load(open(f))[case]
    exe = e4.build_program(b, name)
    outs = []
    for _ in range(2):
        r = e4.run_batch(exe, [('r', args, presets, evs)], limit=20.0)['r']
        outs.append(r)
    print('args   :', args, '| presets:', presets)
    for e in evs:
        print('event  :', e[:200])
    print('status :', outs[0][0])
    print('effects:', outs[0][1][:600])
    print('report :', outs[0][2][:1200])
    if outs[0][0] != outs[1][0]:
        print('NON-DETERMINISTIC: second run gave', outs[1][0])
        return 3
    return 0 if e4.classify(outs[0][0], outs[0][2]) is None else 1
