"""C15 (E5 configuration explorer): the case lattices of C01 C02 C04 C05 C06-C10
C12 C17 executed in every world {gcc, clang} x -O0..-O3 with every PDU placed at
a 16-byte boundary + 0..7; plus clang -fsanitize=alignment worlds (one of them a Release build for x86-64-v3) over the
same cases (every report is an access that assumes more than byte alignment)."""
import concurrent.futures as cf
import os, re, subprocess, time
from . import core

FS = ['C01', 'C02', 'C03', 'C04', 'C05', 'C12', 'C17']
SS = ['C06', 'C07', 'C08', 'C09', 'C10']
WORLDS = [(cc, o) for cc in ('gcc', 'clang') for o in ('-O0', '-O1', '-O2', '-O3', '-Os')]
WSRC = ['wrap_generic.c', 'wrap_ser.c', 'wrap_bo.c']


def build_all(b, with_san=True):
    g = os.path.join(b, 'gen')
    core.run_gen(g)
    nf = core.build_native(os.path.join(b, 'native_f'), g, ['common.c', 'explore_fields.c'])
    ns = core.build_native(os.path.join(b, 'native_s'), g, ['common.c', 'explore_ser.c'])
    exes = {}
    # (the fourth sanitizer world is a CMake Release build for a newer instruction-set level: code behind NDEBUG and behind
    # __SSSE3__/__AVX2__ is compiled there, under the alignment sanitizer)
    worlds = list(WORLDS) + ([('clang', '-O1', 'align'), ('clang', '-Os', 'align'), ('clang', '-O0', 'align'), ('clang', '-O2', 'align', ('-DNDEBUG', '-march=x86-64-v3'))] if with_san else [])
    for w in worlds:
        cc, opt = w[0], w[1]
        san = len(w) > 2
        name = '%s%s%s%s' % (cc, opt, 'rel' if len(w) > 3 else '', '-align' if san else '')
        flags = [opt, '-g'] + (['-fsanitize=alignment', '-fno-omit-frame-pointer'] if san else []) + (list(w[3]) if len(w) > 3 else [])
        wobjs = core.build_world(os.path.join(b, 'w_' + name), g, cc=cc, cflags=flags, world_srcs=WSRC)
        o2 = os.path.join(b, 'w_' + name, 'wrap_bo2.o')
        core.par([[cc, '-std=gnu99', opt, *core.lib_flags(), '-DW_BO=w_bo2', '-DW_FORCE_BIG', '-Wno-builtin-macro-redefined', '-c',
                   os.path.join(core.ROOT, 'world', 'wrap_bo.c'), '-o', o2]])
        lf = ['-fsanitize=alignment'] if san else []
        linker = 'clang' if san else 'gcc'
        exes[name] = (core.link(os.path.join(b, 'ef_' + name), nf + wobjs + [o2], cc=linker, flags=lf),
                      core.link(os.path.join(b, 'es_' + name), ns + wobjs + [o2], cc=linker, flags=lf))
    return exes


ALIGN_RE = re.compile(r"runtime error: (load of|store to|assumption of \d+ byte alignment) (?:misaligned address \S+ for type|for pointer of type) '([^']+)'")


def parse_align(err):
    """-> set of (function, type, load|store)"""
    out = set()
    lines = err.splitlines()
    for i, l in enumerate(lines):
        m = ALIGN_RE.search(l)
        if not m:
            continue
        fn = '?'
        for l2 in lines[i + 1:i + 8]:
            mm = re.search(r'#0 \S+ in (\w+)', l2)
            if mm:
                fn = mm.group(1)
                break
        out.add((fn, m.group(2), 'load' if m.group(1).startswith('load') else 'store' if m.group(1).startswith('store') else 'alignment-assumption'))
    return out


def run(prop, tier):
    t0 = time.time()
    b = core.fresh_dir(os.path.join(core.ROOT, 'build', 'C15'))
    exes = build_all(b)
    offs = list(range(8))
    ltier = 'lite' if tier == 'quick' else 'quick'
    jobs = []
    for name, (ef, es) in exes.items():
        lt = 'lite' if 'rel-' in name else ltier      # the release/x86-64-v3 sanitizer world: lite lattice in both tiers
        for off in offs:
            for s in FS:
                jobs.append((name, off, s, [ef, '--suite', s, '--tier', lt, '--off', str(off)]))
            for s in SS:
                jobs.append((name, off, s, [es, '--suite', s, '--tier', lt, '--off', str(off)]))
    if tier == 'thorough':
        # the heavy suites: the quick lattice (sliced) at offsets 0 and 3, the lite lattice at the other six offsets
        def lite(c):
            c = list(c); c[c.index('--tier') + 1] = 'lite'; return c
        jobs = [j for j in jobs if j[2] not in ('C01', 'C02')] + \
               [(n, o, s, c + ['--slice', '%d/4' % k]) for (n, o, s, c) in jobs if s in ('C01', 'C02') and o in (0, 3) for k in range(4)] + \
               [(n, o, s, lite(c)) for (n, o, s, c) in jobs if s in ('C01', 'C02') and o not in (0, 3)]
    jobs.sort(key=lambda j: (j[2] in ('C01', 'C02'), j[2] in ('C12', 'C17', 'C05')))
    env = dict(os.environ, UBSAN_OPTIONS='print_stacktrace=1:halt_on_error=0')

    deadline = t0 + (25 * 60 if tier == 'thorough' else 8 * 60)
    skipped = []

    def one(j):
        if time.time() > deadline:
            skipped.append(j)
            return j, None
        p = subprocess.run(j[3], stdout=subprocess.PIPE, stderr=subprocess.PIPE, text=True, env=env)
        return j, p
    total = core.Result()
    per_key = {}       # (origprop, key) -> {configs: set, info}
    transcripts = {}   # (suite, off) -> {world: digest}
    align = {}         # (fn, type, kind) -> set of offsets
    died = []
    with cf.ThreadPoolExecutor(core.NCPU) as ex:
        for j, p in ex.map(one, jobs):
            name, off, suite, cmd = j
            if p is None:
                continue
            r = core.Result()
            ok = r.parse(p.stdout)
            if not ok or p.returncode != 0:
                died.append('%s off=%d %s rc=%s %s' % (name, off, suite, p.returncode, p.stderr[-200:]))
                continue
            total.add_counter(r.counters)
            for s in r.samples:
                if s not in total.samples:
                    total.samples.append(s)
            for (op, key), info in r.viol.items():
                e = per_key.setdefault((op, key), {'configs': set(), 'info': info})
                e['configs'].add((name, off))
            if not name.endswith('-align') and len(cmd) <= 7:
                transcripts.setdefault((suite, off), {})[name] = r.transcripts[0] if r.transcripts else None
            if name.endswith('-align'):
                for a in parse_align(p.stderr):
                    align.setdefault(a, set()).add(off)
    if died:
        core.die_infra('explorer runs died:\n' + '\n'.join(died[:5]))
    allcfg = {(n, o) for n in exes for o in offs}
    res = core.Result()
    if skipped:
        res.incomplete.append('deadline reached: %d of %d explorer runs not started (heavy suites are scheduled last)' % (len(skipped), len(jobs)))
    res.counters = total.counters
    res.samples = ['world clang-O3, PDU at 16-byte boundary + 3: ' + s for s in total.samples[:3]]
    general = []
    for (op, key), e in sorted(per_key.items()):
        if e['configs'] >= allcfg and 'alignof' not in key:
            general.append('%s %s' % (op, key))      # same failure everywhere: not a placement dependence, it is %s's business
            continue
        if 'alignof' in key:
            # a header type that demands alignment: placing the PDU at an arbitrary byte offset is no longer valid for that type
            res.viol[('C15', 'type demands alignment: %s' % key)] = {'count': len(e['configs']), 'case': '%s|%s|%d|%s' % (op, sorted(e['configs'])[0][0], sorted(e['configs'])[0][1], e['info']['case']), 'detail': e['info']['detail'], 'tag': ''}
            continue
        cfgs = sorted(e['configs'])
        desc = '%d of %d configurations, e.g. %s at offset %d' % (len(cfgs), len(allcfg), cfgs[0][0], cfgs[0][1])
        res.viol[('C15', 'placement-dependent: %s %s' % (op, key))] = {'count': len(cfgs), 'case': '%s|%s|%d|%s' % (op, cfgs[0][0], cfgs[0][1], e['info']['case']),
                                                                     'detail': desc + ': ' + e['info']['detail'], 'tag': ''}
    ntr = 0
    for (suite, off), d in sorted(transcripts.items()):
        vals = set(d.values())
        ntr += 1
        if len(vals) > 1 and not per_key:
            res.viol[('C15', 'transcript-differs-between-worlds: %s offset %d' % (suite, off))] = {'count': 1, 'case': '', 'detail': str(d), 'tag': ''}
    for (fn, typ, kind), offsets in sorted(align.items()):
        key = 'align:%s:%s:%s' % (fn, typ, kind)
        res.viol[('C15', key)] = {'count': len(offsets), 'case': 'align|%s' % fn,
                                  'detail': '%s of %s through a pointer that is only byte aligned, in %s (PDU offsets %s)' % (kind, typ, fn, sorted(offsets)), 'tag': ''}
    # every load and store of the library against the extent of the object it was given, at all 8 address residues (the
    # instrumented pass of C03): an access that reaches outside the PDU at some placements only is a placement dependence
    from . import c16
    for opt in ('-O0', '-O2'):
        xe = c16.build(os.path.join(b, 'instr'), opt)
        p = subprocess.run([xe, '--extent'], stdout=subprocess.PIPE, stderr=subprocess.PIPE, text=True)
        r2 = core.Result()
        if p.returncode != 0 or not r2.parse(p.stdout, 'instrumented' + opt):
            core.die_infra('instrumented extent pass failed: ' + p.stderr[-500:])
        for (op, key), info in r2.viol.items():
            res.viol[('C15', 'access outside the object: ' + key)] = dict(info, tag='instrumented' + opt)
        res.counters['cases'] = res.counters.get('cases', 0) + r2.counters.get('cases', 0)
        res.counters['transitions'] = res.counters.get('transitions', 0) + r2.counters.get('transitions', 0)
    res.counters['states'] = res.counters.get('states', 0)
    core.finish('C15', tier, t0, res,
                rule='configurations = {gcc,clang} x {-O0,-O1,-O2,-O3,-Os} x PDU start at a 16-byte boundary + {0..7} = 80, each running the %s lattices (thorough: C01 and C02 with the quick lattice at offsets 0 and 3 and the lite lattice elsewhere) of C01 C02 C04 C05 C06 C07 C08 C09 C10 C12 C17 against the reference model (so all configurations agree with each other); transcripts compared between worlds per offset; a failure present in all configurations is not a placement dependence (it is reported by its own property); plus clang -O0/-O1/-Os -fsanitize=alignment worlds over the same cases x 8 offsets, every misaligned-access report keyed by function/type/direction; plus the instrumented extent pass (every load/store of every accessor checked against the header extent at all 8 address residues, -O0 and -O2); a header type whose alignment requirement is not 1 is reported' % ltier,
                bounds={'worlds': [w[0] + w[1] for w in WORLDS], 'offsets': offs, 'lattice': ltier, 'explorer_runs': len(jobs), 'transcript_groups_compared': ntr},
                assumptions=['only the PDU moves; arrays owned by the caller (VSS element arrays, result objects) stay naturally aligned', 'x86-64 host: a misaligned access does not trap here, which is why the alignment-sanitizer world is part of the check'],
                recipe={'engine': 'c15'}, extra_cov={'failures_identical_in_all_configurations': general[:20], 'alignment_reports': len(align)})


def replay(prop, case):
    b = os.path.join(core.ROOT, 'build', 'C15')
    exes = build_all(core.fresh_dir(b))
    if case.startswith('align|'):
        fn = case.split('|')[1]
        env = dict(os.environ, UBSAN_OPTIONS='print_stacktrace=1:halt_on_error=0')
        hit = 0
        for exe, suites in [(exes[w][0], FS) for w in exes if w.endswith('-align')] + [(exes[w][1], SS) for w in exes if w.endswith('-align')]:
            for s in suites:
                p = subprocess.run([exe, '--suite', s, '--tier', 'lite', '--off', '1'], stdout=subprocess.PIPE, stderr=subprocess.PIPE, text=True, env=env)
                for a in sorted(parse_align(p.stderr)):
                    if a[0] == fn:
                        print('suite %s offset 1: %s of %s in %s' % (s, a[2], a[1], a[0]))
                        hit = 1
        return 1 if hit else 0
    op, world, off, cs = case.split('|')
    ef, es = exes[world]
    exe = ef if op in FS or op in ('C03', 'C11') else es
    return subprocess.run([exe, '--case', cs, '--off', off]).returncode
