"""C20 (E5 configuration explorer): every public header alone, every ordered
pair, and the full set in 28 orders, in C99 and C++; each configuration must
compile and every public integer-valued name must keep the value it has when
its header is included alone."""
import concurrent.futures as cf
import glob, os, re, subprocess, sys, time
from . import core
from gen.gen import parse_header, strip_comments  # noqa

LANGS = [('c', ['gcc', '-std=gnu99', '-x', 'c']), ('c++', ['g++', '-std=gnu++11', '-x', 'c++']),
         # strict ISO modes (define __STRICT_ANSI__) and the oldest C++ dialect
         ('c-iso', ['gcc', '-std=c99', '-x', 'c']), ('c++98', ['g++', '-std=c++98', '-x', 'c++']),
         # a toolchain that predefines _MSC_VER (clang's MSVC-compatible front end; syntax and constant expressions only)
         ('c-msvc', ['clang', '--target=x86_64-pc-windows-msvc', '-ffreestanding', '-std=gnu99', '-x', 'c', '-isystem', os.path.join(core.ROOT, 'be', 'shim')])]


def headers():
    inc = os.path.join(core.REPO, 'include')
    hs = sorted(os.path.relpath(p, inc) for p in glob.glob(os.path.join(inc, '**', '*.h'), recursive=True))
    return inc, hs


def names_of(inc, h):
    """integer-valued names a header defines itself: object-like macros, enumerators; plus its types"""
    path = os.path.join(inc, h)
    protos, enums, macros = parse_header(path)
    src = strip_comments(open(path).read())
    objmacros = []
    for m in re.finditer(r'^[ \t]*#[ \t]*define[ \t]+(\w+)(\(?)', src, flags=re.M):
        # function-like macros have '(' immediately after the name
        name = m.group(1)
        after = src[m.end(1):m.end(1) + 1]
        if after == '(':
            continue
        body = macros.get(name, '')
        if body == '':
            continue
        objmacros.append(name)
    allmacros = set(re.findall(r'^[ \t]*#[ \t]*define[ \t]+(\w+)', src, flags=re.M))
    types = re.findall(r'\}\s*(\w+)\s*;', src)
    types = [t for t in types if t not in ('',) and t not in allmacros]      # `} ATTRIBUTE_MACRO;` is not a type name
    structs = ['struct ' + s for s in re.findall(r'\bstruct\s+(\w+)\s*\{', src) if not re.search(r'typedef\s+struct\s+' + s + r'\s*\{', src)]
    return objmacros, enums, types + structs


def compile_probe(inc, h, names, types, bdir):
    """values of the names when the header is included alone (C)"""
    tag = re.sub(r'\W', '_', h)
    vals = {}

    def attempt(ns, ts, suffix):
        src = os.path.join(bdir, 'probe_%s_%s.c' % (tag, suffix))
        exe = src[:-2]
        with open(src, 'w') as f:
            f.write('#include <stdio.h>\n#include <stddef.h>\n#include "%s"\nint main(void){\n' % h)
            for n in ns:
                f.write('printf("N %s %%lld\\n", (long long)(%s));\n' % (n, n))
            for t in ts:
                f.write('printf("T %s %%lld\\n", (long long)sizeof(%s));\n' % (t.replace(' ', '#'), t))
                f.write('printf("A %s %%lld\\n", (long long)__alignof__(%s));\n' % (t.replace(' ', '#'), t))
            f.write('return 0;}\n')
        r = core.sh(['gcc', '-std=gnu99', '-w', '-I' + inc, src, '-o', exe])
        if r.returncode != 0:
            return None
        o = core.sh([exe]).stdout
        d = {}
        for line in o.splitlines():
            k, n, v = line.split()
            d[(k, n.replace('#', ' '))] = int(v)
        return d
    d = attempt(names, types, 'all')
    if d is None:
        # find the names that are not integer expressions, one by one
        d = {}
        for i, n in enumerate(names):
            x = attempt([n], [], 'n%d' % i)
            if x:
                d.update(x)
        for i, t in enumerate(types):
            x = attempt([], [t], 't%d' % i)
            if x:
                d.update(x)
    return d


PROBE = r'''
#include <stdio.h>
#include <stddef.h>
#include <stdint.h>
#include <string.h>
%s
struct vt_probe { char c; uint64_t q; uint16_t h; uint32_t w; char d; };
union vt_u { struct { uint32_t w; uint16_t h; uint64_t q; } s; unsigned char b[16]; };
int main(void)
{
    union vt_u u; memset(&u, 0, sizeof u);
    u.s.w = 0x01020304u; u.s.h = 0x0506; u.s.q = 0x0708090a0b0c0d0eull;
    printf("%%d %%d %%d %%d %%d |", (int)sizeof(struct vt_probe), (int)offsetof(struct vt_probe, q), (int)offsetof(struct vt_probe, h), (int)offsetof(struct vt_probe, w), (int)offsetof(struct vt_probe, d));
    for (unsigned i = 0; i < sizeof u; i++) printf(" %%02x", u.b[i]);
    printf("\n");
    return 0;
}
'''


def pragma_state(inc, hs, bdir):
    """compiler state a header leaves behind (#pragma pack, #pragma scalar_storage_order, ...): the layout and the
    stored bytes of a probe structure declared AFTER the header must be those of a unit that includes nothing"""
    out = {}

    def one(h):
        src = os.path.join(bdir, 'state_%s.c' % re.sub(r'\W', '_', h or 'none'))
        open(src, 'w').write(PROBE % ('#include "%s"' % h if h else ''))
        r = core.sh(['gcc', '-std=gnu99', '-w', '-I' + inc, src, '-o', src[:-2]])
        if r.returncode != 0:
            return h, None
        return h, core.sh([src[:-2]]).stdout.strip()
    with cf.ThreadPoolExecutor(core.NCPU) as ex:
        for h, v in ex.map(one, [None] + list(hs)):
            out[h] = v
    return out


def cxx_types(inc, h, names, bdir):
    """the C++ type of each integer-valued name when the header is included alone (an enumerator has its enumeration's
    type, a macro that expands to a literal has type int): {name: spelled type}"""
    tag = re.sub(r'\W', '_', h)
    src = os.path.join(bdir, 'cxxt_%s.cc' % tag)
    with open(src, 'w') as f:
        f.write('#include <typeinfo>\n#include <cstdio>\n#include "%s"\nint main(){\n' % h)
        for n in names:
            f.write('printf("%s %%s\\n", typeid(%s).name());\n' % (n, n))
        f.write('return 0;}\n')
    r = core.sh(['g++', '-std=gnu++11', '-w', '-I' + inc, src, '-o', src[:-3]])
    if r.returncode != 0:
        return {}
    out = {}
    for line in core.sh([src[:-3]]).stdout.splitlines():
        n, m = line.split()
        t = core.sh(['c++filt', '-t', m]).stdout.strip()
        if t and '<' not in t and '{' not in t and '(' not in t:
            out[n] = t
    return out


def inline_bodies(inc, hs):
    """static inline functions by name: {name: {header: normalised body}}"""
    out = {}
    for h in hs:
        src = strip_comments(open(os.path.join(inc, h)).read())
        for m in re.finditer(r'static\s+inline\s+[\w\s\*]+?\b(\w+)\s*\(([^)]*)\)\s*\{', src):
            depth, i = 1, m.end()
            while i < len(src) and depth:
                depth += {'{': 1, '}': -1}.get(src[i], 0)
                i += 1
            out.setdefault(m.group(1), {})[h] = re.sub(r'\s+', ' ', src[m.end():i - 1]).strip()
    return out


def lang_facts(inc, hs, facts):
    """A fact is only asserted in a language in which it holds when its header is included ALONE (the value comes from a C
    probe; GNU C accepts things C++ does not). What is left can only fail because of the other headers of a configuration.
    -> (facts per language, number dropped, {(language, header)} that front end cannot host for lack of a system header)"""
    facts_l = {lang: {h: dict(facts[h]) for h in hs} for lang, cmd in LANGS}
    dropped = 0
    nohost = set()      # (language, header): needs a system header this front end has no library for - not a property of the header
    for lang, cmd in LANGS:
        for h in hs:
            for _ in range(40):
                text = tu_text((h,), facts_l[lang])
                pp = subprocess.run(cmd + ['-fsyntax-only', '-w', '-I' + inc, '-'], input=text, stdout=subprocess.PIPE, stderr=subprocess.PIPE, text=True)
                if pp.returncode == 0:
                    break
                if lang == 'c-msvc' and re.search(r"fatal error: '[^']+' file not found", pp.stderr) and not re.search(r"fatal error: 'avtp/", pp.stderr):
                    nohost.add((lang, h))
                    break
                lines = text.splitlines()
                bad = set()
                for line in pp.stderr.splitlines():
                    mm = re.search(r'<stdin>:(\d+)', line)
                    if mm and 'error' in line and 'vsa_' in lines[int(mm.group(1)) - 1]:
                        c = re.search(r'/\* (sizeof )?(\S+) from (\S+) \*/', lines[int(mm.group(1)) - 1])
                        if c:
                            bad.add(('T' if c.group(1) else 'N', c.group(2)))
                            bad.add(('A', c.group(2)))
                bad = {k for k in bad if k in facts_l[lang][h]} or {k for k in facts_l[lang][h] if k[0] == 'T' and k[1].replace(' ', '#') in pp.stderr} 
                if not bad:
                    break          # the header itself does not compile alone in this language: reported below as 'single'
                for k in bad:
                    del facts_l[lang][h][k]
                    dropped += 1
    return facts_l, dropped, nohost


CTYPES = {}


def linkage(inc, cfg, fnames, bdir, tag):
    """which linker symbol each function name designates in a C++ unit that includes cfg in this order: 'C' (the plain
    name, i.e. the C library's function), 'C++' (a mangled name nothing defines) or 'local' (defined in the unit)"""
    text = ''.join('#include "%s"\n' % h for h in cfg) + 'void* const vcheck_refs[] = {\n' + ''.join('  (void*)&%s,\n' % f for f in fnames) + \
        '  0 };\nvoid* const* vcheck_keep() { return vcheck_refs; }\n'
    obj = os.path.join(bdir, 'link_%s.o' % tag)
    p = subprocess.run(['g++', '-std=gnu++11', '-x', 'c++', '-w', '-fpermissive', '-I' + inc, '-c', '-', '-o', obj], input=text, stdout=subprocess.PIPE, stderr=subprocess.PIPE, text=True)
    if p.returncode != 0:
        return None
    out = subprocess.run(['nm', '-u', obj], stdout=subprocess.PIPE, text=True).stdout
    os.unlink(obj)
    syms = set(l.split()[-1] for l in out.splitlines() if l.strip())
    mangled = {}
    for sy in syms:
        m = re.match(r'_Z(\d+)', sy)
        if m:
            n = int(m.group(1))
            mangled[sy[m.end():m.end() + n]] = sy
    return {f: 'C' if f in syms else 'C++' if f in mangled else 'local' for f in fnames}


def tu_text(hs, facts, cxx=False):
    out = ['#include <stddef.h>']
    for h in hs:
        out.append('#include "%s"' % h)
    k = 0
    for h in hs:
        for (kind, name), v in sorted(facts[h].items()):
            k += 1
            if kind == 'N':
                # the value, and the name used inside an expression (a macro body that lacks its parentheses)
                out.append('typedef char vsa_%d[((long long)(%s) == %dLL && (2 * %s) == (2 * (%s)) && (%s * 2) == ((%s) * 2) && (0 - %s) == (0 - (%s))) ? 1 : -1]; /* %s from %s */' % (k, name, v, name, name, name, name, name, name, name, h))
                if cxx and name in CTYPES.get(h, {}):
                    k += 1
                    out.append('typedef char vsa_%d[__is_same(__typeof__(%s), %s) ? 1 : -1]; /* %s from %s */' % (k, name, CTYPES[h][name], name, h))
            elif kind == 'A':
                out.append('typedef char vsa_%d[(__alignof__(%s) == %d) ? 1 : -1]; /* sizeof %s from %s */' % (k, name, v, name, h))
            else:
                out.append('typedef char vsa_%d[(sizeof(%s) == %d) ? 1 : -1]; /* sizeof %s from %s */' % (k, name, v, name, h))
    out.append('int vcheck_c20_tu;')
    return '\n'.join(out) + '\n'


def covering_orders(hs, seed=1722, extra=0):
    """a small set of permutations of hs such that every ordered triple (a before b before c) of distinct headers
    occurs in at least one of them (greedy sequence-covering array, deterministic)"""
    import random, itertools
    rnd = random.Random(seed)
    n = len(hs)
    idx = list(range(n))
    uncovered = set(itertools.permutations(idx, 3))
    perms = []
    while uncovered:
        best, bestc = None, -1
        for _ in range(40):
            p = idx[:]
            rnd.shuffle(p)
            pos = {h: i for i, h in enumerate(p)}
            c = sum(1 for (a, b2, c3) in uncovered if pos[a] < pos[b2] < pos[c3]) if len(uncovered) < 4000 else \
                sum(1 for (a, b2, c3) in itertools.islice(uncovered, 4000) if pos[a] < pos[b2] < pos[c3])
            if c > bestc:
                best, bestc = p, c
        pos = {h: i for i, h in enumerate(best)}
        uncovered = {t for t in uncovered if not (pos[t[0]] < pos[t[1]] < pos[t[2]])}
        perms.append(tuple(hs[i] for i in best))
    for _ in range(extra):
        p = idx[:]
        rnd.shuffle(p)
        perms.append(tuple(hs[i] for i in p))
    return perms


def shrink(cfg, langs, inc, facts):
    """a minimal sub-order of cfg that still fails in one of the given languages (one header removed at a time);
    facts: per language"""
    cur = list(cfg)
    changed = True
    while changed and len(cur) > 1:
        changed = False
        for h in list(cur):
            trial = [x for x in cur if x != h]
            fails = False
            for lang, cmd in LANGS:
                if lang in langs:
                    pp = subprocess.run(cmd + ['-fsyntax-only', '-w', '-I' + inc, '-'], input=tu_text(trial, facts[lang] if lang in facts else facts, lang.startswith('c++')), stdout=subprocess.PIPE, stderr=subprocess.PIPE, text=True)
                    fails = fails or pp.returncode != 0
            if fails:
                cur = trial
                changed = True
                break
    return cur


def run(prop, tier):
    t0 = time.time()
    b = core.fresh_dir(os.path.join(core.ROOT, 'build', 'C20'))
    inc, hs = headers()
    facts, nfacts = {}, 0
    res = core.Result()
    # pass 1: each header alone
    alone_bad = {}
    for h in hs:
        macros, enums, types = names_of(inc, h)
        facts[h] = compile_probe(inc, h, macros + enums, types, b) or {}
        nfacts += len(facts[h])
    facts_l, dropped, nohost = lang_facts(inc, hs, facts)
    # a static inline function defined in more than one header (under a shared guard) with different bodies: which body a
    # unit gets depends on the order of its #include lines
    for fn, defs in sorted(inline_bodies(inc, hs).items()):
        res.counters['cases'] = res.counters.get('cases', 0) + 1
        if len(set(defs.values())) > 1:
            hh = sorted(defs)
            res.viol[('C20', 'pair:%s+%s inline function %s has different bodies' % (hh[0], hh[1], fn))] = {'count': 1, 'case': 'pair:%s+%s' % (hh[0], hh[1]),
                'detail': 'static inline %s is defined in %s with different bodies; the first header included decides what the unit computes' % (fn, ', '.join(hh)), 'tag': ''}
    # C++: the type of each name (an enumerator that is also a macro elsewhere changes type with the set of headers)
    ctypes = {}
    for h in hs:
        ctypes[h] = cxx_types(inc, h, [n for (k, n) in facts[h] if k == 'N'], b)
    CTYPES.clear(); CTYPES.update(ctypes)
    st = pragma_state(inc, hs, b)
    if not st[None]:
        core.die_infra('pragma-state probe does not build')
    for h in hs:
        res.counters['cases'] = res.counters.get('cases', 0) + 1
        res.counters['transitions'] = res.counters.get('transitions', 0) + 1
        if st[h] is not None and st[h] != st[None]:
            res.viol[('C20', 'single:%s leaves compiler state behind (layout or storage order of later declarations)' % h)] = {
                'count': 1, 'case': 'single:%s' % h, 'detail': 'a probe structure declared after the header: %s; without the header: %s' % (st[h], st[None]), 'tag': ''}
    # planted-bug self-test: a fact that is deliberately off by one must make its translation unit fail
    hplant = next(h for h in hs if facts[h])
    bad = {hplant: dict(facts[hplant])}
    k0 = sorted(bad[hplant])[0]
    bad[hplant][k0] += 1
    pp = subprocess.run(LANGS[0][1] + ['-fsyntax-only', '-w', '-I' + inc, '-'], input=tu_text((hplant,), bad), stdout=subprocess.PIPE, stderr=subprocess.PIPE, text=True)
    if pp.returncode == 0:
        core.die_infra('C20 self-test: a planted wrong value for %s did not fail the generated translation unit' % (k0,))
    configs = [('single', (h,)) for h in hs]
    configs += [('pair', (a, c)) for a in hs for c in hs if a != c]
    full = [('set', tuple(hs)), ('set', tuple(reversed(hs)))]
    nrot = len(hs) if tier == 'thorough' else 6
    for r in range(1, nrot + 1):
        full.append(('set', tuple(hs[r % len(hs):] + hs[:r % len(hs)])))
    # every ordered triple of headers occurs, in that relative order, in one of these permutations of the full set
    cov = covering_orders(hs, extra=200 if tier == 'thorough' else 0)
    full += [('set', p) for p in cov]
    if tier == 'thorough':
        # every subset of size 3 containing a fixed "hub" of frequently bridged headers, in two orders
        hub = [h for h in hs if os.path.basename(h) in ('Tscf.h', 'Ntscf.h', 'Can.h', 'CommonHeader.h')]
        for a in hub:
            for i, x in enumerate(hs):
                for y in hs[i + 1:]:
                    if a in (x, y):
                        continue
                    full.append(('triple', (x, a, y)))
    configs += full
    jobs = []
    for ci, (kind, cfg) in enumerate(configs):
        for lang, cmd in LANGS:
            if any((lang, h) in nohost for h in cfg):
                cfg_l = tuple(h for h in cfg if (lang, h) not in nohost)
                if len(cfg_l) < 2 and kind != 'single' or not cfg_l:
                    continue
                jobs.append((ci, kind, cfg_l, lang, cmd, tu_text(cfg_l, facts_l[lang], lang.startswith('c++'))))
                continue
            jobs.append((ci, kind, cfg, lang, cmd, tu_text(cfg, facts_l[lang], lang.startswith('c++'))))

    def one(j):
        ci, kind, cfg, lang, cmd, text = j
        p = subprocess.run(cmd + ['-fsyntax-only', '-w', '-I' + inc, '-'], input=text, stdout=subprocess.PIPE, stderr=subprocess.PIPE, text=True)
        return j, p.returncode, p.stderr
    failed = {}
    with cf.ThreadPoolExecutor(core.NCPU) as ex:
        for j, rc, err in ex.map(one, jobs):
            ci, kind, cfg, lang, cmd, text = j
            res.counters['cases'] = res.counters.get('cases', 0) + 1
            res.counters['transitions'] = res.counters.get('transitions', 0) + 1
            if rc != 0:
                items = set()
                lines = text.splitlines()
                for line in err.splitlines():
                    if 'error' not in line or re.match(r'^\d+ errors? generated', line.strip()):
                        continue
                    mm = re.search(r'<stdin>:(\d+)', line)
                    if mm and 'vsa_' in lines[int(mm.group(1)) - 1]:
                        c = re.search(r'/\* (?:sizeof )?(\S+) from (\S+) \*/', lines[int(mm.group(1)) - 1])
                        items.add('changed-meaning:%s(of %s)' % (c.group(1), c.group(2)) if c else 'changed-meaning:?')
                        continue
                    q = re.search(r"[\u2018'`]([^\u2019']+)[\u2019']", line)
                    what = re.sub(r'^.*error:\s*', '', line)
                    what = re.sub(r"[\u2018'`][^\u2019']+[\u2019']", '', what).strip().split(';')[0]
                    what = re.sub(r'\s+', '-', what)[:40]
                    items.add('error:%s:%s' % (q.group(1) if q else '?', what))
                if not items:
                    items.add('error:?:' + (err.strip().splitlines() or ['?'])[0][:60])
                if any(i.startswith('error:') for i in items):
                    items = {i for i in items if i.startswith('error:')}   # assertions after a hard error are consequences
                failed.setdefault((kind, cfg), {})[lang] = sorted(items)
    # C++ callers: in every configuration each function name must designate the linker symbol it designates when its
    # header is included alone (a declaration that ends up outside extern "C" names a function nobody defines)
    fn_of = {h: sorted(n for n in parse_header(os.path.join(inc, h))[0] if not n.startswith('_')) for h in hs}
    alone = {}
    with cf.ThreadPoolExecutor(core.NCPU) as ex:
        for h, r in zip(hs, ex.map(lambda h: linkage(inc, (h,), fn_of[h], b, 'a%d' % hs.index(h)), hs)):
            alone[h] = r
    ljobs = [(ci, kind, cfg) for ci, (kind, cfg) in enumerate(configs) if kind != 'single' and all(alone[h] is not None for h in cfg)]

    def lone(j):
        ci, kind, cfg = j
        return j, linkage(inc, cfg, sorted(set(f for h in cfg for f in fn_of[h])), b, 'c%d' % ci)
    link_bad = {}
    with cf.ThreadPoolExecutor(core.NCPU) as ex:
        for (ci, kind, cfg), got in ex.map(lone, ljobs):
            res.counters['cases'] = res.counters.get('cases', 0) + 1
            res.counters['transitions'] = res.counters.get('transitions', 0) + 1
            if got is None:
                continue      # does not compile: reported by the pass above
            for h in cfg:
                for f in fn_of[h]:
                    if got.get(f) != alone[h][f]:
                        link_bad.setdefault((kind, cfg), []).append((f, h, alone[h][f], got.get(f)))
    pair_link = {cfg for (kind, cfg) in link_bad if kind == 'pair'}
    for (kind, cfg), items in sorted(link_bad.items()):
        if kind != 'pair':
            pos = {h: i for i, h in enumerate(cfg)}
            if any(a in pos and c in pos and pos[a] < pos[c] for (a, c) in pair_link):
                continue
        base = ('pair:%s+%s' % cfg) if kind == 'pair' else 'order:%s' % '<'.join(cfg)
        f, h, was, now = sorted(items)[0]
        res.viol[('C20', base + ' linkage:' + f)] = {'count': len(items), 'case': base, 'detail': 'in a C++ unit %s (of %s) designates the %s symbol, alone the %s symbol; %d names affected' % (f, h, now, was, len(items)), 'tag': 'c++'}
    res.counters['states'] = len(configs)
    res.counters['nontrivial'] = len(configs)
    pair_fail = {cfg for (kind, cfg) in failed if kind == 'pair'}
    single_fail = {cfg[0] for (kind, cfg) in failed if kind == 'single'}
    masked = 0
    reduced = []
    for (kind, cfg), langs in sorted(failed.items()):
        if kind == 'single':
            base = 'single:%s' % cfg[0]
        elif kind == 'pair':
            if cfg[0] in single_fail or cfg[1] in single_fail:
                masked += 1
                continue
            base = 'pair:%s+%s' % cfg
        else:
            pos = {h: i for i, h in enumerate(cfg)}
            if any(a in pos and c in pos and pos[a] < pos[c] for (a, c) in pair_fail) or any(h in single_fail for h in cfg):
                masked += 1
                reduced.append((kind, cfg))
                continue
            cur = shrink(cfg, langs, inc, facts_l)
            base = 'order:%s' % '<'.join(cur)
        # one violation per distinct failing name, so that a new clash in an already listed pair is still new
        allitems = {}
        for l, items in langs.items():
            for it in items:
                # the wording of diagnostics differs between the C and C++ front ends: key on kind + identifier only
                k2 = ':'.join(it.split(':')[:2])
                allitems.setdefault(k2, []).append(l)
        for it, ls in sorted(allitems.items()):
            res.viol[('C20', base + ' ' + it)] = {'count': len(ls), 'case': base, 'detail': '%s in %s' % (it, '+'.join(sorted(set(ls)))), 'tag': ''}
    # a set that contains a failing pair is explored again without the later header of each failing pair,
    # so that a listed pairwise conflict does not hide the rest of the set
    rjobs = []
    rfailed = {}
    for kind, cfg in reduced:
        drop = {c for (a, c) in pair_fail if a in cfg and c in cfg and cfg.index(a) < cfg.index(c)} | {h for h in cfg if h in single_fail}
        for d in sorted(drop) or [None]:
            keep = tuple(h for h in cfg if h in drop and h != d or h not in drop) if False else tuple(h for h in cfg if h not in drop)
            break
        for lang, cmd in LANGS:
            kl = tuple(h for h in keep if (lang, h) not in nohost)
            rjobs.append((0, kind + '-reduced', kl, lang, cmd, tu_text(kl, facts_l[lang], lang.startswith('c++'))))
        # and the complementary reduction: drop the earlier header instead
        drop2 = {a for (a, c) in pair_fail if a in cfg and c in cfg and cfg.index(a) < cfg.index(c)} | {h for h in cfg if h in single_fail}
        keep2 = tuple(h for h in cfg if h not in drop2)
        for lang, cmd in LANGS:
            kl = tuple(h for h in keep2 if (lang, h) not in nohost)
            rjobs.append((0, kind + '-reduced', kl, lang, cmd, tu_text(kl, facts_l[lang], lang.startswith('c++'))))
    with cf.ThreadPoolExecutor(core.NCPU) as ex:
        for j, rc, err in ex.map(one, rjobs):
            res.counters['cases'] += 1
            res.counters['transitions'] += 1
            if rc != 0:
                first = [l for l in err.splitlines() if 'error' in l][:1]
                rfailed.setdefault(j[2], {})[j[3]] = first[0] if first else err[:200]
    res.counters['states'] += len(rjobs) // 2
    for cfg, langs in rfailed.items():
        cur = shrink(cfg, langs, inc, facts_l)
        key = 'order:%s' % '<'.join(cur)
        e = res.viol.setdefault(('C20', key), {'count': 0, 'case': key, 'detail': '; '.join('%s: %s' % kv for kv in sorted(langs.items())), 'tag': ''})
        e['count'] += 1
    samples = ['pair avtp/aaf/Aaf.h then avtp/aaf/Pcm.h in C99 and C++ with one static assertion per public name of both headers (value when included alone)',
               'full set of %d headers rotated by 7, C++' % len(hs)]
    core.finish('C20', tier, t0, res, rule='configurations = each header alone, all %d ordered pairs, full set in %d orders - sorted, reversed, rotations and a sequence-covering set of permutations in which every ordered triple of headers occurs in that relative order (thorough: + 200 further permutations and explicit triples through hub headers) x {gcc -std=gnu99, g++ -std=gnu++11, gcc -std=c99, g++ -std=c++98, clang for an MSVC target (predefines _MSC_VER)}; each name also inside an expression (2*N, N*2, 0-N against the parenthesised form), each type also with its alignment; in C++ every function name must designate the linker symbol it designates when its header is included alone (object file per configuration, undefined symbols read back); per header a probe structure declared after it must have the layout and stored bytes it has without the header; each TU includes the headers and asserts every public integer name (%d facts: macros, enumerators, sizeof) against its value when the header is included alone; a set/triple failure explained by a failing ordered pair inside it is attributed to the pair' % (len(hs) * (len(hs) - 1), len(full) if tier != 'thorough' else nrot + 2, nfacts),
                bounds={'headers': len(hs), 'configurations': len(configs), 'languages': 5, 'facts': nfacts, 'facts_not_asserted_in_a_language_where_they_do_not_hold_alone': dropped, 'headers_left_out_of_the_msvc_front_end_for_lack_of_a_system_header': sorted(h for l, h in nohost), 'masked_by_pair': masked},
                assumptions=['GNU C as the project uses it (zero-length arrays accepted); -pedantic diagnostics are not violations', 'pairwise conflicts plus the sampled larger sets; a conflict needing three specific headers outside the enumerated sets is not seen in quick'],
                recipe={'engine': 'c20'}, samples=samples, extra_cov={'compilations': len(jobs), 'planted_bug_selftest': 'a deliberately wrong value for %s %s made its translation unit fail, as required' % k0})


def replay(prop, case):
    inc, hs = headers()
    b = os.path.join(core.ROOT, 'build', 'C20r')
    os.makedirs(b, exist_ok=True)
    kind, rest = case.split(':', 1)
    cfg = rest.split('<') if kind == 'order' else rest.split('+')
    facts = {}
    for h in cfg:
        macros, enums, types = names_of(inc, h)
        facts[h] = compile_probe(inc, h, macros + enums, types, b) or {}
    facts_l, _, nohost = lang_facts(inc, cfg, facts)
    rc = 0
    for lang, cmd in LANGS:
        cfg_l = [h for h in cfg if (lang, h) not in nohost]
        p = subprocess.run(cmd + ['-fsyntax-only', '-w', '-I' + inc, '-'], input=tu_text(cfg_l, facts_l[lang]), stdout=subprocess.PIPE, stderr=subprocess.PIPE, text=True)
        print('%s: rc=%d %s' % (lang, p.returncode, p.stderr.splitlines()[0] if p.stderr else ''))
        rc |= p.returncode != 0
    # linker symbols of the function names in a C++ unit, against each header alone
    fn_of = {h: sorted(n for n in parse_header(os.path.join(inc, h))[0] if not n.startswith('_')) for h in cfg}
    alone = {h: linkage(inc, (h,), fn_of[h], b, 'ra') for h in cfg}
    got = linkage(inc, tuple(cfg), sorted(set(f for h in cfg for f in fn_of[h])), b, 'rc')
    if got is not None and all(alone[h] is not None for h in cfg):
        for h in cfg:
            for f in fn_of[h]:
                if got.get(f) != alone[h][f]:
                    print('c++ linkage: %s designates the %s symbol, alone the %s symbol' % (f, got.get(f), alone[h][f]))
                    rc = 1
    return 1 if rc else 0
