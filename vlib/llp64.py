"""A world whose `long` is 32 bits wide (LLP64 data model: the one of 64-bit Windows; `unsigned long`
constants behave as on every ILP32 target): library and thunks compiled by clang for
x86_64-w64-windows-gnu to LLVM IR (types and integer promotions are fixed there), then the IR is
compiled for this host. Pointers and size_t stay 64 bits, so the native checker links against it
unchanged. The world reports its data model through w_world_model() and the build refuses to go on
unless it says int=4 long=4 pointer=8."""
import os, subprocess
from . import core, c14

NOMACRO = ['-U__BYTE_ORDER__', '-U__ORDER_LITTLE_ENDIAN__', '-U__ORDER_BIG_ENDIAN__', '-U__ORDER_PDP_ENDIAN__', '-Wno-builtin-macro-redefined']


def build(b, gdir, nobjs, name, opt='-O1'):
    wdir = os.path.join(b, 'world-llp64' + opt)
    bo = os.path.join(core.ROOT, 'world', 'wrap_bo.c')
    objs = c14.be_objects(wdir, gdir, opt, 'x86_64-w64-windows-gnu', True, extra_jobs=[(bo, 'wrap_bo3', ['-DW_BO=w_bo3'] + NOMACRO),
                                                                                       # the helpers as a Microsoft-flavoured compiler sees them (_MSC_VER defined, CRT intrinsics available)
                                                                                       (bo, 'wrap_bo5', ['-DW_BO=w_bo5', '-D_MSC_VER=1930'])], soft=True)
    exe = core.link(os.path.join(b, name + '-llp64'), nobjs + objs, cc='clang')
    out = subprocess.run([exe, '--worldinfo'], stdout=subprocess.PIPE, text=True).stdout.strip()
    if not out.startswith('model=448 '):
        core.die_infra('the LLP64 world does not have the intended data model: ' + out)
    return exe
