"""C16 (E3): ownership classification of every hooked access + exhaustive
schedule exploration up to a preemption bound, on the library compiled with
-fsanitize=thread and bound to our own runtime; plus a free-running real-TSan
pass of the same driver bodies (complement, not the deciding step)."""
import glob, os, re, subprocess, time
from . import core

WSRC = ['wrap_generic.c', 'wrap_ser.c', 'wrap_bo.c']


NOMACRO = ['-U__BYTE_ORDER__', '-U__ORDER_LITTLE_ENDIAN__', '-U__ORDER_BIG_ENDIAN__', '-Wno-builtin-macro-redefined']


def build(b, opt, extra=(), tag=''):
    g = os.path.join(b, 'gen')
    core.run_gen(g)
    wdir = os.path.join(b, 'w' + opt + tag)
    os.makedirs(wdir, exist_ok=True)
    inc = [*core.lib_flags(), '-I' + os.path.join(core.ROOT, 'world')]
    cmds, objs = [], []
    # the library: every load/store calls our hooks
    for s in core.repo_sources() + [os.path.join(core.ROOT, 'world', 'toy.c')]:
        o = os.path.join(wdir, core.objname(s))
        cmds.append(['clang', '-std=gnu99', opt, '-g', '-fsanitize=thread', '-Dmemcpy=vt_memcpy', '-Dmemset=vt_memset'] + list(extra) + inc + ['-c', s, '-o', o])
        objs.append(o)
    # thunks: plain
    for s in sorted(glob.glob(os.path.join(g, 'wrap_*.c'))) + [os.path.join(core.ROOT, 'world', w) for w in WSRC]:
        o = os.path.join(wdir, core.objname(s))
        cmds.append(['gcc', '-std=gnu99', '-O1', '-g'] + inc + ['-c', s, '-o', o])
        objs.append(o)
    core.par(cmds, 'instrumented world')
    nobjs = core.build_native(os.path.join(b, 'native'), g, ['common.c', 'explore_sched.c'])
    return core.link(os.path.join(b, 'explore_sched' + opt + tag), nobjs + objs)


def writable_sections():
    """writable static storage of plain (non-coverage) builds of the two libraries: the default
    configuration and the one where the compiler does not predefine the byte-order macros"""
    cmds, objs = [], []
    for tag, extra in (('plain', []), ('plain-nomacro', NOMACRO)):
        b = os.path.join(core.ROOT, 'build', 'C16', tag)
        os.makedirs(b, exist_ok=True)
        for s in core.repo_sources():
            o = os.path.join(b, core.objname(s))
            cmds.append(['gcc', '-std=gnu99', '-O2', '-fPIC'] + extra + [*core.lib_flags(), '-c', s, '-o', o])
            objs.append(o)
    # ... and of a client translation unit per public header (static inline functions kept): a function-local static in a
    # header is writable state in every program that includes it, although no library object contains it
    inc = os.path.join(core.REPO, 'include')
    hb = os.path.join(core.ROOT, 'build', 'C16', 'client')
    os.makedirs(hb, exist_ok=True)
    for h in sorted(glob.glob(os.path.join(inc, '**', '*.h'), recursive=True)):
        rel = os.path.relpath(h, inc)
        src = os.path.join(hb, re.sub(r'\W', '_', rel) + '.c')
        open(src, 'w').write('#include "%s"\n' % rel)
        o = src[:-2] + '.client.o'
        cmds.append(['gcc', '-std=gnu99', '-O0', '-fkeep-inline-functions', '-w', '-I' + inc, '-c', src, '-o', o])
        objs.append(o)
    core.par(cmds)
    bad = []
    for o in objs:
        out = core.sh(['size', '-A', o]).stdout
        for line in out.splitlines():
            p = line.split()
            if len(p) >= 2 and p[0] in ('.data', '.bss', '.tbss', '.tdata') and p[1].isdigit() and int(p[1]) > 0:
                bad.append('%s%s %s=%s' % (os.path.basename(o).replace('.client.o', ' (a unit that only includes this header)'), ' (no byte-order macros)' if 'nomacro' in o else '', p[0], p[1]))
            if len(p) >= 2 and p[0].startswith(('.data.', '.bss.')) and not p[0].startswith('.data.rel.ro') and p[1].isdigit() and int(p[1]) > 0:
                bad.append('%s%s %s=%s' % (os.path.basename(o).replace('.client.o', ' (a unit that only includes this header)'), ' (no byte-order macros)' if 'nomacro' in o else '', p[0], p[1]))
    return bad, len(objs)


REENTRANT = {'memcpy', 'memset', 'memmove', 'memcmp', 'memchr', 'strlen', 'strnlen', 'strcmp', 'strncmp', 'strcpy', 'strncpy', 'strcat', 'strncat', 'strchr', 'strrchr', 'strstr',
             'abs', 'labs', 'llabs', '__assert_fail', 'abort', '__stack_chk_fail', '_GLOBAL_OFFSET_TABLE_', '__errno_location', 'htonl', 'htons', 'ntohl', 'ntohs',
             '__udivdi3', '__umoddi3', '__divdi3', '__moddi3', '__popcountdi2', '__bswapdi2', '__bswapsi2', '__memcpy_chk', '__memset_chk', '__strncpy_chk', '__strcpy_chk'}
HIDDEN_STATE = {'strtok': 'keeps its position in a static variable', 'rand': 'hidden generator state', 'srand': 'hidden generator state', 'random': 'hidden generator state', 'srandom': 'hidden generator state',
                'drand48': 'hidden generator state', 'lrand48': 'hidden generator state', 'mrand48': 'hidden generator state', 'localtime': 'returns a static object', 'gmtime': 'returns a static object',
                'ctime': 'returns a static buffer', 'asctime': 'returns a static buffer', 'strerror': 'may return a static buffer', 'getenv': 'reads the process environment', 'setenv': 'writes the process environment',
                'putenv': 'writes the process environment', 'setlocale': 'process-global locale', 'tmpnam': 'static buffer', 'inet_ntoa': 'returns a static buffer', 'gethostbyname': 'returns a static object',
                'printf': 'writes the shared stdout stream', 'puts': 'writes the shared stdout stream', 'putchar': 'writes the shared stdout stream', 'fprintf': 'writes a shared stream', 'fputs': 'writes a shared stream',
                'fwrite': 'writes a shared stream', 'perror': 'writes the shared stderr stream', 'stdout': 'shared stream', 'stderr': 'shared stream', 'stdin': 'shared stream', 'signgam': 'global written by lgamma',
                'lgamma': 'writes the global signgam', 'lgammaf': 'writes the global signgam', 'atexit': 'process-global handler list', 'signal': 'process-global disposition', 'environ': 'process environment'}


def external_references(bdir):
    """what the library objects reference outside themselves: a function of the C library with hidden static state is
    writable shared state the instrumentation of the library's own loads and stores cannot see"""
    own, ext = set(), {}
    for opt in ('-O0', '-O2'):
        d = os.path.join(bdir, 'ext' + opt)
        os.makedirs(d, exist_ok=True)
        cmds, objs = [], []
        for s_ in core.repo_sources():
            o = os.path.join(d, core.objname(s_))
            cmds.append(['gcc', '-std=gnu99', opt, *core.lib_flags(), '-c', s_, '-o', o])
            objs.append(o)
        core.par(cmds)
        for o in objs:
            for line in core.sh(['nm', o]).stdout.splitlines():
                p = line.split()
                if len(p) == 2 and p[0] == 'U':
                    ext.setdefault(p[1], set()).add(os.path.basename(o).split('_src_avtp_')[-1])
                elif len(p) == 3 and p[1] in 'TtDdBbRrVvWw':
                    own.add(p[2])
    return {k: sorted(v) for k, v in ext.items() if k not in own}


def run(prop, tier):
    t0 = time.time()
    b = core.fresh_dir(os.path.join(core.ROOT, 'build', 'C16'))
    res = core.Result()
    infos, drivers = [], []
    for opt, extra, tag in (('-O0', (), ''), ('-O2', (), ''), ('-O0', NOMACRO, '-nomacro')):
        exe = build(b, opt, extra, tag)
        opt = opt + tag
        p = subprocess.run([exe, '--tier', tier], stdout=subprocess.PIPE, stderr=subprocess.PIPE, text=True, timeout=3000)
        if p.returncode in (-4, -6, -7, -8, -11):
            # a library call faulted under some schedule (the explorer itself passes its self-test first and runs the same
            # drivers sequentially for the reference): what was reported up to then is kept
            res.parse(p.stdout, opt)
            last = [l for l in p.stdout.splitlines() if l.startswith('D\t')][-1:] or ['?']
            res.viol[('C16', 'a library call faults under some schedule (explorer killed by signal %d)' % -p.returncode)] = {
                'count': 1, 'case': 'O:0', 'detail': 'world %s; last completed driver: %s' % (opt, last[0][:200]), 'tag': opt}
            continue
        if p.returncode != 0 or not res.parse(p.stdout, opt):
            core.die_infra('schedule explorer (%s) failed: rc=%s %s' % (opt, p.returncode, p.stderr[-1500:]))
        for line in p.stdout.splitlines():
            if line.startswith('I\t'):
                infos.append('%s: %s' % (opt, line[2:]))
            if line.startswith('D\t'):
                drivers.append('%s: %s' % (opt, line.split('\t', 2)[2]))
    # "only the objects passed to them": every load and store of every accessor against the exact extent of the header it was
    # given, at all 8 address residues (the instrumented pass C03 uses): a read-modify-write of a wider aligned word that
    # covers a neighbouring object is a write to memory that was not passed in, although it stores the same bytes back
    for opt in ('-O0', '-O2'):
        xe = os.path.join(b, 'explore_sched' + opt)
        p = subprocess.run([xe, '--extent'], stdout=subprocess.PIPE, stderr=subprocess.PIPE, text=True)
        r2 = core.Result()
        if p.returncode != 0 or not r2.parse(p.stdout, 'extent' + opt):
            core.die_infra('instrumented extent pass failed: ' + p.stderr[-500:])
        for (op, key), info in r2.viol.items():
            res.viol[('C16', 'access outside the object that was passed: ' + key)] = dict(info, tag='extent' + opt)
        res.counters['cases'] = res.counters.get('cases', 0) + r2.counters.get('cases', 0)
        res.counters['transitions'] = res.counters.get('transitions', 0) + r2.counters.get('transitions', 0)
    bad, nobj = writable_sections()
    for x in bad:
        res.viol[('C16', 'writable static storage in the library: ' + x)] = {'count': 1, 'case': 'O:0', 'detail': x, 'tag': ''}
    ext = external_references(b)
    unclassified = []
    for name, where in sorted(ext.items()):
        res.counters['cases'] = res.counters.get('cases', 0) + 1
        if name in HIDDEN_STATE:
            res.viol[('C16', 'library calls %s (%s)' % (name, HIDDEN_STATE[name]))] = {'count': len(where), 'case': 'O:0', 'detail': 'referenced from %s' % ', '.join(where[:6]), 'tag': ''}
        elif name not in REENTRANT:
            unclassified.append('%s (%s)' % (name, ', '.join(where[:3])))
    res.counters['cases'] = res.counters.get('cases', 0) + nobj
    capped = [d for d in drivers if 'CAPPED' in d]
    if capped:
        res.incomplete.append('execution cap reached: ' + '; '.join(capped))
    # complement: the same driver bodies free-running under the real ThreadSanitizer
    tsan = free_running_tsan(b, tier)
    for k, v in tsan.get('viol', {}).items():
        res.viol[('C16', k)] = v
    core.finish('C16', tier, t0, res,
                rule='(i) every public function run once with every load/store of the library hooked (compiler instrumentation bound to our runtime, -O0 and -O2 builds): an access outside {caller stack, passed objects, read-only image segments} is a violation; object files must have empty .data/.bss and may reference outside themselves only functions known to keep no hidden state (a reference to strtok, rand, localtime, stdio ... is a violation; unknown names are listed). (ii) 6 drivers x {2 threads, preemption bound %s} and {3 threads, bound %s}: ALL schedules within the bound (scheduling point = every hooked access to memory that is neither the running thread\'s stack nor a read-only segment), per-thread results and final buffers compared with the sequential reference; planted shared-counter toy must be found first' % (('4', '3') if tier == 'thorough' else ('3', '2')),
                bounds={'external_references': sorted(ext), 'external_references_not_classified': unclassified, 'preemption_bound': {'2 threads': 4, '3 threads': 3} if tier == 'thorough' else {'2 threads': 3, '3 threads': 2}, 'threads': [2, 3], 'drivers': drivers, 'info': infos, 'free_running_tsan': tsan.get('summary')},
                assumptions=['sequentially consistent interleavings of the compiled code\'s memory accesses; hardware reordering is only covered by the free-running ThreadSanitizer pass',
                             'the -O0 build decides (an optimiser may legitimately keep a source-level shared variable in a register); -O2 is the production-like build',
                             'reads of read-only image segments are not scheduling points (immutable memory commutes with every other access)'],
                recipe={'engine': 'c16'}, replayer=None)


def free_running_tsan(b, tier):
    d = os.path.join(b, 'tsanfree')
    os.makedirs(d, exist_ok=True)
    g = os.path.join(b, 'gen')
    srcs = core.repo_sources() + sorted(glob.glob(os.path.join(g, 'wrap_*.c'))) + [os.path.join(core.ROOT, 'world', w) for w in WSRC] + \
        [os.path.join(core.ROOT, 'world', 'toy.c'), os.path.join(core.ROOT, 'engine', 'tsan_free.c'), os.path.join(g, 'rows_gen.c')]
    exe = os.path.join(d, 'tsan_free')
    r = core.sh(['clang', '-std=gnu99', '-O1', '-g', '-fsanitize=thread', '-DW_TLS=__thread', *core.lib_flags(), '-I' + os.path.join(core.ROOT, 'world'),
                 '-I' + g, '-I' + os.path.join(core.ROOT, 'engine')] + srcs + ['-o', exe, '-lpthread'])
    if r.returncode != 0:
        return {'summary': 'not built: ' + r.stderr[-300:]}
    iters = '20000' if tier == 'thorough' else '3000'
    p = subprocess.run([exe, iters], stdout=subprocess.PIPE, stderr=subprocess.PIPE, text=True, env=dict(os.environ, TSAN_OPTIONS='halt_on_error=0:report_signal_unsafe=0'))
    races = set()
    lines = p.stderr.splitlines()
    for i, l in enumerate(lines):
        if 'WARNING: ThreadSanitizer: data race' in l:
            fn = '?'
            for l2 in lines[i + 1:i + 6]:
                m = re.search(r'#0 (\w+)', l2)
                if m:
                    fn = m.group(1)
                    break
            races.add(fn)
    out = {'summary': 'free-running pthreads under ThreadSanitizer: %s iterations, exit %s, races in: %s; %s' % (iters, p.returncode, sorted(races) or 'none', p.stdout.strip()[-200:])}
    viol = {}
    if 'FATAL' in p.stderr and not races and p.returncode != 0 and 'mismatch' not in p.stdout:
        out['summary'] = 'ThreadSanitizer runtime could not run in this sandbox: ' + p.stderr.strip()[-200:]
        return out
    for fn in sorted(races):
        if fn.startswith('toy_'):
            continue
        viol['data race (ThreadSanitizer, free-running): ' + fn] = {'count': 1, 'case': 'O:0', 'detail': 'reported by the real ThreadSanitizer on the free-running driver bodies', 'tag': ''}
    if 'mismatch' in p.stdout:
        viol['free-running threads: result differs from sequential'] = {'count': 1, 'case': 'O:0', 'detail': p.stdout.strip()[-300:], 'tag': ''}
    out['viol'] = viol
    return out


def replay(prop, case):
    b = core.fresh_dir(os.path.join(core.ROOT, 'build', 'C16'))
    exe = build(b, '-O0')
    return subprocess.run([exe, '--case', case]).returncode
