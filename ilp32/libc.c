/* A minimal C runtime for the ILP32 world: the explorers, the thunks and the library are compiled with
 * gcc -m32 -ffreestanding -nostdlib (this sandbox has no 32-bit libc or libgcc) and linked with this file.
 * Linux/i386 system calls through int 0x80; only what the explorers use. Nothing here is used by the
 * native (x86-64) builds. */
#include <stddef.h>
#include <stdint.h>
#include <stdarg.h>
#include <errno.h>
#include <string.h>
#include <stdlib.h>
#include <stdio.h>
#include <signal.h>
#include <unistd.h>
#include <sys/mman.h>

int errno;

/* ------------------------------------------------------------------ system calls */
static long sc3(long n, long a, long b, long c)
{
    long r;
    __asm__ volatile("int $0x80" : "=a"(r) : "0"(n), "b"(a), "c"(b), "d"(c) : "memory");
    return r;
}
static long sc4(long n, long a, long b, long c, long d)
{
    long r;
    __asm__ volatile("int $0x80" : "=a"(r) : "0"(n), "b"(a), "c"(b), "d"(c), "S"(d) : "memory");
    return r;
}
long __vt_sc6(long n, long a, long b, long c, long d, long e, long f);
__asm__(".text\n.globl __vt_sc6\n__vt_sc6:\n"
        "  push %ebp\n  push %edi\n  push %esi\n  push %ebx\n"
        "  mov 20(%esp), %eax\n  mov 24(%esp), %ebx\n  mov 28(%esp), %ecx\n  mov 32(%esp), %edx\n"
        "  mov 36(%esp), %esi\n  mov 40(%esp), %edi\n  mov 44(%esp), %ebp\n"
        "  int $0x80\n"
        "  pop %ebx\n  pop %esi\n  pop %edi\n  pop %ebp\n  ret\n");
static long ret(long r) { if (r < 0 && r > -4096) { errno = (int)-r; return -1; } return r; }

#define SYS_exit_group 252
#define SYS_write 4
#define SYS_getpid 20
#define SYS_kill 37
#define SYS_munmap 91
#define SYS_mprotect 125
#define SYS_rt_sigaction 174
#define SYS_sigaltstack 186
#define SYS_mmap2 192

ssize_t write(int fd, const void* b, size_t n) { return (ssize_t)ret(sc3(SYS_write, fd, (long)b, (long)n)); }
int getpid(void) { return (int)sc3(SYS_getpid, 0, 0, 0); }
void* mmap(void* a, size_t n, int prot, int flags, int fd, long off)
{
    long r = __vt_sc6(SYS_mmap2, (long)a, (long)n, prot, flags, fd, off >> 12);
    if (r < 0 && r > -4096) { errno = (int)-r; return MAP_FAILED; }
    return (void*)r;
}
int munmap(void* a, size_t n) { return (int)ret(sc3(SYS_munmap, (long)a, (long)n, 0)); }
int mprotect(void* a, size_t n, int prot) { return (int)ret(sc3(SYS_mprotect, (long)a, (long)n, prot)); }
long sysconf(int name) { (void)name; return 4096; }

int sigaction(int sig, const struct sigaction* sa, struct sigaction* old) { return (int)ret(sc4(SYS_rt_sigaction, sig, (long)sa, (long)old, 8)); }
int sigaltstack(const stack_t* ss, stack_t* old) { return (int)ret(sc3(SYS_sigaltstack, (long)ss, (long)old, 0)); }
int sigemptyset(sigset_t* s) { s->sig[0] = s->sig[1] = 0; return 0; }
void (*signal(int sig, void (*h)(int)))(int)
{
    struct sigaction sa; memset(&sa, 0, sizeof sa); sa.sa_handler = h;
    sigaction(sig, &sa, NULL);
    return SIG_DFL;
}
struct itimerval;
int setitimer(int which, const struct itimerval* nv, struct itimerval* ov) { return (int)ret(sc3(104, which, (long)nv, (long)ov)); }
int raise(int sig) { return (int)ret(sc3(SYS_kill, getpid(), sig, 0)); }

/* ------------------------------------------------------------------ strings */
void* memcpy(void* d, const void* s, size_t n) { uint8_t* a = d; const uint8_t* b = s; while (n--) *a++ = *b++; return d; }
void* memmove(void* d, const void* s, size_t n)
{
    uint8_t* a = d; const uint8_t* b = s;
    if (a < b) while (n--) *a++ = *b++; else { a += n; b += n; while (n--) *--a = *--b; }
    return d;
}
void* memset(void* d, int c, size_t n) { uint8_t* a = d; while (n--) *a++ = (uint8_t)c; return d; }
int memcmp(const void* x, const void* y, size_t n) { const uint8_t* a = x; const uint8_t* b = y; for (; n--; a++, b++) if (*a != *b) return *a < *b ? -1 : 1; return 0; }
size_t strlen(const char* s) { size_t n = 0; while (s[n]) n++; return n; }
int strcmp(const char* a, const char* b) { while (*a && *a == *b) { a++; b++; } return (unsigned char)*a - (unsigned char)*b; }
int strncmp(const char* a, const char* b, size_t n) { while (n && *a && *a == *b) { a++; b++; n--; } return n ? (unsigned char)*a - (unsigned char)*b : 0; }
char* strcpy(char* d, const char* s) { char* r = d; while ((*d++ = *s++)) { } return r; }
char* strncpy(char* d, const char* s, size_t n) { size_t i = 0; for (; i < n && s[i]; i++) d[i] = s[i]; for (; i < n; i++) d[i] = 0; return d; }
char* strchr(const char* s, int c) { for (;; s++) { if (*s == (char)c) return (char*)s; if (!*s) return NULL; } }
char* strstr(const char* h, const char* n) { size_t l = strlen(n); for (; *h; h++) if (!strncmp(h, n, l)) return (char*)h; return l ? NULL : (char*)h; }
size_t strnlen(const char* s, size_t n) { size_t i = 0; while (i < n && s[i]) i++; return i; }
char* strcat(char* d, const char* s) { strcpy(d + strlen(d), s); return d; }
char* strrchr(const char* s, int c) { const char* r = NULL; for (;; s++) { if (*s == (char)c) r = s; if (!*s) return (char*)r; } }
void* memchr(const void* s, int c, size_t n) { const uint8_t* p = s; for (; n--; p++) if (*p == (uint8_t)c) return (void*)p; return NULL; }
int abs(int x) { return x < 0 ? -x : x; }
long labs(long x) { return x < 0 ? -x : x; }
int sprintf(char* b, const char* fmt, ...);
char* strtok(char* s, const char* delim)
{
    static char* next;
    if (s) next = s;
    if (!next) return NULL;
    while (*next && strchr(delim, *next)) next++;
    if (!*next) { next = NULL; return NULL; }
    char* tok = next;
    while (*next && !strchr(delim, *next)) next++;
    if (*next) *next++ = 0; else next = NULL;
    return tok;
}

/* ------------------------------------------------------------------ heap: bump allocator, blocks remember their size */
static uint8_t* heap_cur; static uint8_t* heap_end;
void* malloc(size_t n)
{
    n = (n + 8 + 15) & ~(size_t)15;
    if (!heap_cur || (size_t)(heap_end - heap_cur) < n) {
        size_t chunk = n > (8u << 20) ? n : (8u << 20);
        chunk = (chunk + 4095) & ~(size_t)4095;
        void* p = mmap(NULL, chunk, PROT_READ | PROT_WRITE, MAP_PRIVATE | MAP_ANONYMOUS, -1, 0);
        if (p == MAP_FAILED) return NULL;
        heap_cur = p; heap_end = heap_cur + chunk;
    }
    uint8_t* p = heap_cur; heap_cur += n;
    *(size_t*)p = n - 8;
    return p + 8;
}
void* calloc(size_t n, size_t m) { void* p = malloc(n * m); return p; /* fresh anonymous pages are zero; blocks are never reused */ }
void free(void* p) { (void)p; }
void* realloc(void* p, size_t n)
{
    if (!p) return malloc(n);
    size_t old = *(size_t*)((uint8_t*)p - 8);
    if (old >= n) return p;
    void* q = malloc(n);
    if (q) memcpy(q, p, old);
    return q;
}
char* strdup(const char* s) { size_t n = strlen(s) + 1; char* d = malloc(n); if (d) memcpy(d, s, n); return d; }

/* ------------------------------------------------------------------ numbers */
static int digit(int c) { if (c >= '0' && c <= '9') return c - '0'; if (c >= 'a' && c <= 'z') return c - 'a' + 10; if (c >= 'A' && c <= 'Z') return c - 'A' + 10; return 99; }
unsigned long long strtoull(const char* s, char** end, int base)
{
    while (*s == ' ' || *s == '\t') s++;
    int neg = 0; if (*s == '+' || *s == '-') neg = *s++ == '-';
    if ((base == 0 || base == 16) && s[0] == '0' && (s[1] == 'x' || s[1] == 'X') && digit(s[2]) < 16) { s += 2; base = 16; }
    else if (base == 0) base = s[0] == '0' ? 8 : 10;
    unsigned long long v = 0;
    while (digit(*s) < base) v = v * (unsigned)base + (unsigned)digit(*s++);
    if (end) *end = (char*)s;
    return neg ? 0 - v : v;
}
long long strtoll(const char* s, char** end, int base) { return (long long)strtoull(s, end, base); }
long strtol(const char* s, char** end, int base) { return (long)strtoull(s, end, base); }
long long atoll(const char* s) { return strtoll(s, NULL, 10); }
int atoi(const char* s) { return (int)strtoll(s, NULL, 10); }

/* 64-bit division (no libgcc for this target here): shift-subtract, only shifts and compares inside */
static unsigned long long udivmod(unsigned long long n, unsigned long long d, unsigned long long* rem)
{
    unsigned long long q = 0, r = 0;
    if (d == 0) { volatile int z = 0; q = (unsigned long long)(1 / z); }
    for (int i = 63; i >= 0; i--) {
        r = (r << 1) | ((n >> i) & 1);
        if (r >= d) { r -= d; q |= 1ull << i; }
    }
    if (rem) *rem = r;
    return q;
}
unsigned long long __udivdi3(unsigned long long n, unsigned long long d) { return udivmod(n, d, NULL); }
unsigned long long __umoddi3(unsigned long long n, unsigned long long d) { unsigned long long r; udivmod(n, d, &r); return r; }
long long __divdi3(long long n, long long d)
{
    int neg = (n < 0) != (d < 0);
    unsigned long long q = udivmod(n < 0 ? 0ull - (unsigned long long)n : (unsigned long long)n, d < 0 ? 0ull - (unsigned long long)d : (unsigned long long)d, NULL);
    return neg ? (long long)(0 - q) : (long long)q;
}
long long __moddi3(long long n, long long d)
{
    unsigned long long r;
    udivmod(n < 0 ? 0ull - (unsigned long long)n : (unsigned long long)n, d < 0 ? 0ull - (unsigned long long)d : (unsigned long long)d, &r);
    return n < 0 ? (long long)(0 - r) : (long long)r;
}

long long __divmoddi4(long long n, long long d, long long* rem) { long long q = __divdi3(n, d); *rem = n - q * d; return q; }
unsigned long long __udivmoddi4(unsigned long long n, unsigned long long d, unsigned long long* rem) { return udivmod(n, d, rem); }

/* ------------------------------------------------------------------ formatted output */
struct vt_FILE { int fd; char buf[1 << 16]; size_t n; };
static struct vt_FILE f_out = {1, {0}, 0}, f_err = {2, {0}, 0};
FILE* stdout = &f_out; FILE* stderr = &f_err;
int fflush(FILE* f)
{
    if (!f) { fflush(stdout); fflush(stderr); return 0; }
    size_t o = 0;
    while (o < f->n) { ssize_t w = write(f->fd, f->buf + o, f->n - o); if (w <= 0) break; o += (size_t)w; }
    f->n = 0;
    return 0;
}
static void fputn(FILE* f, const char* s, size_t n)
{
    for (size_t i = 0; i < n; i++) { if (f->n == sizeof f->buf) fflush(f); f->buf[f->n++] = s[i]; }
    if (f == stderr) fflush(f);
}
int setvbuf(FILE* f, char* b, int mode, size_t n) { (void)f; (void)b; (void)mode; (void)n; return 0; }

typedef struct { char* b; size_t cap, len; } Out;
static void oc(Out* o, char c) { if (o->len + 1 < o->cap) o->b[o->len] = c; o->len++; }
static void pad(Out* o, int n, char c) { while (n-- > 0) oc(o, c); }
int vsnprintf(char* b, size_t n, const char* fmt, va_list ap)
{
    Out o = { b, n, 0 };
    for (; *fmt; fmt++) {
        if (*fmt != '%') { oc(&o, *fmt); continue; }
        fmt++;
        int left = 0, plus = 0, zero = 0, space = 0, alt = 0;
        for (;; fmt++) { if (*fmt == '-') left = 1; else if (*fmt == '+') plus = 1; else if (*fmt == '0') zero = 1; else if (*fmt == ' ') space = 1; else if (*fmt == '#') alt = 1; else break; }
        int width = 0, prec = -1;
        if (*fmt == '*') { width = va_arg(ap, int); fmt++; } else while (*fmt >= '0' && *fmt <= '9') width = width * 10 + (*fmt++ - '0');
        if (*fmt == '.') { fmt++; prec = 0; if (*fmt == '*') { prec = va_arg(ap, int); fmt++; } else while (*fmt >= '0' && *fmt <= '9') prec = prec * 10 + (*fmt++ - '0'); }
        int lng = 0;       /* 0 int, 1 long, 2 long long, 3 size_t, -1 short, -2 char */
        if (*fmt == 'l') { lng = 1; fmt++; if (*fmt == 'l') { lng = 2; fmt++; } }
        else if (*fmt == 'z' || *fmt == 't') { lng = 3; fmt++; }
        else if (*fmt == 'j') { lng = 2; fmt++; }
        else if (*fmt == 'h') { lng = -1; fmt++; if (*fmt == 'h') { lng = -2; fmt++; } }
        char tmp[72]; int tl = 0; const char* s = tmp; int sl; char sign = 0;
        switch (*fmt) {
        case '%': oc(&o, '%'); continue;
        case 'c': tmp[0] = (char)va_arg(ap, int); sl = 1; break;
        case 's': s = va_arg(ap, const char*); if (!s) s = "(null)"; sl = (int)strlen(s); if (prec >= 0 && sl > prec) sl = prec; zero = 0; break;
        case 'd': case 'i': case 'u': case 'x': case 'X': case 'p': case 'o': {
            unsigned long long v; int base = (*fmt == 'x' || *fmt == 'X' || *fmt == 'p') ? 16 : *fmt == 'o' ? 8 : 10;
            if (*fmt == 'p') { v = (uintptr_t)va_arg(ap, void*); alt = 1; }
            else if (*fmt == 'd' || *fmt == 'i') {
                long long sv = lng == 2 ? va_arg(ap, long long) : lng == 1 ? va_arg(ap, long) : lng == 3 ? (long long)va_arg(ap, ptrdiff_t) : va_arg(ap, int);
                if (lng == -1) sv = (short)sv; if (lng == -2) sv = (signed char)sv;
                if (sv < 0) { sign = '-'; v = 0ull - (unsigned long long)sv; } else { v = (unsigned long long)sv; sign = plus ? '+' : space ? ' ' : 0; }
            } else {
                v = lng == 2 ? va_arg(ap, unsigned long long) : lng == 1 ? va_arg(ap, unsigned long) : lng == 3 ? va_arg(ap, size_t) : va_arg(ap, unsigned);
                if (lng == -1) v = (unsigned short)v; if (lng == -2) v = (unsigned char)v;
            }
            const char* dig = *fmt == 'X' ? "0123456789ABCDEF" : "0123456789abcdef";
            char rev[70]; int rl = 0;
            if (v == 0) rev[rl++] = '0';
            while (v) { unsigned long long q = udivmod(v, (unsigned)base, NULL); rev[rl++] = dig[(int)(v - q * (unsigned)base)]; v = q; }
            while (rl < prec) rev[rl++] = '0';
            if (alt && base == 16) { tmp[tl++] = '0'; tmp[tl++] = 'x'; }
            while (rl) tmp[tl++] = rev[--rl];
            sl = tl;
            break; }
        default: oc(&o, '%'); oc(&o, *fmt); continue;
        }
        int total = sl + (sign ? 1 : 0);
        if (!left && !zero) pad(&o, width - total, ' ');
        if (sign) oc(&o, sign);
        if (!left && zero) pad(&o, width - total, '0');
        for (int i = 0; i < sl; i++) oc(&o, s[i]);
        if (left) pad(&o, width - total, ' ');
    }
    if (o.cap) o.b[o.len < o.cap ? o.len : o.cap - 1] = 0;
    return (int)o.len;
}
int sprintf(char* b, const char* fmt, ...) { va_list ap; va_start(ap, fmt); int r = vsnprintf(b, 1u << 20, fmt, ap); va_end(ap); return r; }
int snprintf(char* b, size_t n, const char* fmt, ...) { va_list ap; va_start(ap, fmt); int r = vsnprintf(b, n, fmt, ap); va_end(ap); return r; }
static int vfprintf_(FILE* f, const char* fmt, va_list ap)
{
    static char big[8192];
    int r = vsnprintf(big, sizeof big, fmt, ap);
    fputn(f, big, (size_t)(r < (int)sizeof big ? r : (int)sizeof big - 1));
    return r;
}
int printf(const char* fmt, ...) { va_list ap; va_start(ap, fmt); int r = vfprintf_(stdout, fmt, ap); va_end(ap); return r; }
int fprintf(FILE* f, const char* fmt, ...) { va_list ap; va_start(ap, fmt); int r = vfprintf_(f, fmt, ap); va_end(ap); return r; }
int puts(const char* s) { fputn(stdout, s, strlen(s)); fputn(stdout, "\n", 1); return 0; }
int putchar(int c) { char ch = (char)c; fputn(stdout, &ch, 1); return c; }
void perror(const char* s) { fprintf(stderr, "%s: errno %d\n", s, errno); }
/* only decimal integers and literal characters (the explorers parse "<i>/<n>") */
int sscanf(const char* s, const char* fmt, ...)
{
    va_list ap; va_start(ap, fmt); int n = 0;
    for (; *fmt; fmt++) {
        if (*fmt == '%' && fmt[1] == 'd') { char* e; long v = strtol(s, &e, 10); if (e == s) break; *va_arg(ap, int*) = (int)v; s = e; n++; fmt++; }
        else if (*fmt == *s) s++; else break;
    }
    va_end(ap);
    return n;
}

/* ------------------------------------------------------------------ process */
void exit(int rc) { fflush(NULL); for (;;) sc3(SYS_exit_group, rc, 0, 0); }
void _exit(int rc) { for (;;) sc3(SYS_exit_group, rc, 0, 0); }
void abort(void) { fflush(NULL); raise(SIGABRT); exit(134); }
void __vt_assert_fail(const char* e, const char* f, int l) { fprintf(stderr, "%s:%d: assertion failed: %s\n", f, l, e); raise(SIGABRT); exit(134); }
void __stack_chk_fail(void) { abort(); }

int main(int argc, char** argv);
void __vt_start_c(long* sp) { int argc = (int)sp[0]; char** argv = (char**)(sp + 1); exit(main(argc, argv)); }
__asm__(".text\n.globl _start\n_start:\n  xor %ebp, %ebp\n  mov %esp, %eax\n  and $-16, %esp\n  sub $12, %esp\n  push %eax\n  call __vt_start_c\n  hlt\n");
