#pragma once
#include <stddef.h>
#include <stdarg.h>
typedef struct vt_FILE FILE;
extern FILE* stdout; extern FILE* stderr;
#define _IOFBF 0
#define EOF (-1)
int printf(const char* fmt, ...) __attribute__((format(printf, 1, 2)));
int fprintf(FILE* f, const char* fmt, ...) __attribute__((format(printf, 2, 3)));
int snprintf(char* b, size_t n, const char* fmt, ...) __attribute__((format(printf, 3, 4)));
int vsnprintf(char* b, size_t n, const char* fmt, va_list ap);
int sscanf(const char* s, const char* fmt, ...);
int setvbuf(FILE* f, char* b, int mode, size_t n);
int fflush(FILE* f);
void perror(const char* s);
int puts(const char* s);
int putchar(int c);
int sprintf(char* b, const char* fmt, ...);
