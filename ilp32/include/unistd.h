#pragma once
#include <stddef.h>
typedef int ssize_t;
#define _SC_PAGESIZE 30
long sysconf(int name);
ssize_t write(int fd, const void* b, size_t n);
int getpid(void);
void _exit(int rc) __attribute__((noreturn));
