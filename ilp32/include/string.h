#pragma once
#include <stddef.h>
void* memcpy(void* d, const void* s, size_t n);
void* memmove(void* d, const void* s, size_t n);
void* memset(void* d, int c, size_t n);
int memcmp(const void* a, const void* b, size_t n);
size_t strlen(const char* s);
int strcmp(const char* a, const char* b);
int strncmp(const char* a, const char* b, size_t n);
char* strncpy(char* d, const char* s, size_t n);
char* strcpy(char* d, const char* s);
char* strchr(const char* s, int c);
char* strstr(const char* h, const char* n);
char* strtok(char* s, const char* delim);
char* strdup(const char* s);
size_t strnlen(const char* s, size_t n);
char* strcat(char* d, const char* s);
char* strrchr(const char* s, int c);
void* memchr(const void* s, int c, size_t n);
