#pragma once
struct timeval { long tv_sec; long tv_usec; };
struct itimerval { struct timeval it_interval; struct timeval it_value; };
#define ITIMER_REAL 0
int setitimer(int which, const struct itimerval* nv, struct itimerval* ov);
