#pragma once
#include <stddef.h>
#define PROT_NONE 0
#define PROT_READ 1
#define PROT_WRITE 2
#define MAP_PRIVATE 2
#define MAP_ANONYMOUS 0x20
#define MAP_NORESERVE 0x4000
#define MAP_FAILED ((void*)-1)
void* mmap(void* a, size_t n, int prot, int flags, int fd, long off);
int munmap(void* a, size_t n);
int mprotect(void* a, size_t n, int prot);
