#pragma once
void __vt_assert_fail(const char* e, const char* f, int l);
#ifdef NDEBUG
#define assert(e) ((void)0)
#else
#define assert(e) ((e) ? (void)0 : __vt_assert_fail(#e, __FILE__, __LINE__))
#endif
