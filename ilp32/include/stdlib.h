#pragma once
#include <stddef.h>
void* malloc(size_t n);
void* calloc(size_t n, size_t m);
void* realloc(void* p, size_t n);
void free(void* p);
void exit(int rc) __attribute__((noreturn));
void abort(void) __attribute__((noreturn));
int atoi(const char* s);
long long atoll(const char* s);
long strtol(const char* s, char** end, int base);
long long strtoll(const char* s, char** end, int base);
unsigned long long strtoull(const char* s, char** end, int base);
int abs(int x);
long labs(long x);
