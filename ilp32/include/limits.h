#pragma once
/* the compiler's own <limits.h> (found first) defines everything; this file only ends its #include_next chain */
