#pragma once
#include <signal.h>
