#pragma once
#include <stddef.h>
typedef int sig_atomic_t;
typedef struct { unsigned long sig[2]; } sigset_t;
typedef struct { int si_signo, si_errno, si_code; void* si_addr; int pad[28]; } siginfo_t;
struct sigaction {
    union { void (*sa_handler)(int); void (*sa_sigaction)(int, siginfo_t*, void*); } u;
    unsigned long sa_flags;
    void (*sa_restorer)(void);
    sigset_t sa_mask;
};
#define sa_handler u.sa_handler
#define sa_sigaction u.sa_sigaction
typedef struct { void* ss_sp; int ss_flags; size_t ss_size; } stack_t;
#define SA_SIGINFO 4
#define SA_ONSTACK 0x08000000
#define SA_NODEFER 0x40000000
#define SIGILL 4
#define SIGABRT 6
#define SIGBUS 7
#define SIGFPE 8
#define SIGSEGV 11
#define SIGALRM 14
#define SIG_DFL ((void (*)(int))0)
int sigaction(int sig, const struct sigaction* sa, struct sigaction* old);
int sigaltstack(const stack_t* ss, stack_t* old);
int sigemptyset(sigset_t* s);
void (*signal(int sig, void (*h)(int)))(int);
int raise(int sig);
