#pragma once
/* compiler built-ins: enough for leaving a signal handler that runs with SA_NODEFER */
typedef void* sigjmp_buf[5];
typedef void* jmp_buf[5];
#define sigsetjmp(b, m) __builtin_setjmp(b)
#define siglongjmp(b, v) __builtin_longjmp(b, 1)
#define setjmp(b) __builtin_setjmp(b)
#define longjmp(b, v) __builtin_longjmp(b, 1)
