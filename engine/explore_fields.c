/* E1/E2 explorer for the table-driven part of the library (C01 C02 C03 C04
 * C05 C11 C12 C17). Native checker; calls the world only through world.h.
 *
 * usage: explore_fields --suite C01 [--tier quick|thorough] [--slice i/n]
 *                       [--case <case string>]
 * A case string re-executes exactly one enumerated case (replay). */
#include "common.h"
#include "../world/world.h"
#include "rows_gen.h"
#include <errno.h>

#define PRE 16          /* canary bytes before the header */
#define POST 32         /* payload/canary bytes after the header */
#define MAXLEN 64
#define GBUF 1064        /* generic-descriptor buffer: quadlets 0..265 */
static int g_off;            /* C15: header starts at a 16-byte boundary + g_off */
static int g_lite;           /* reduced lattices for the many-worlds sweeps */
#define HOFF (PRE + g_off)

static int g_thorough;
static int g_slice = 0, g_nslices = 1;
static uint64_t g_unit;             /* running unit counter for slicing */
static const char* g_suite = "";
static int g_replay;                /* --case given */
static uint8_t canary_byte(int i) { return (uint8_t)(0xC3 ^ (i * 29)); }

static int my_unit(void) { return (int)(g_unit++ % (uint64_t)g_nslices) == g_slice; }

/* object = PRE(+offset) canary | header(len) | POST canary, in plain heap memory with slack */
typedef struct { uint8_t raw[PRE + 8 + MAXLEN + POST] __attribute__((aligned(16))); int len; } Obj;
static void obj_fill(Obj* o, int len, uint8_t bg)
{
    o->len = len;
    for (int i = 0; i < HOFF; i++) o->raw[i] = canary_byte(i);
    memset(o->raw + HOFF, bg, (size_t)len);
    for (int i = 0; i < POST; i++) o->raw[HOFF + len + i] = canary_byte(100 + i);
}
static uint8_t* obj_hdr(Obj* o) { return o->raw + HOFF; }
static size_t obj_size(const Obj* o) { return (size_t)(HOFF + o->len + POST); }

/* ======================================================================= */
/* C01: reads                                                               */
/* sub 0: H1 lattice; window = header bits, a = flipped bit (-1: none)      */
/* sub 1: value placed in the field on a background                         */
/* sub 2: generic descriptor shapes                                         */
/* ======================================================================= */
static void c01_check(int sub, int fmt, int fld, int path, int bgi, int64_t a, uint64_t val, Obj* o)
{
    const RowFmt* F = &g_fmts[fmt];
    const RowField* R = &F->f[fld];
    Obj before = *o;
    uint64_t exp = ref_get(obj_hdr(o), (unsigned)R->off, (unsigned)R->w);
    volatile uint64_t got = 0;
    char cs[160];
    SETCS("C01", (long long)(sub), (long long)(fmt), (long long)(fld), (long long)(path), (long long)(bgi), (long long)((long long)a), (long long)((unsigned long long)val));
    g_cnt.cases++;
    if (exp) g_cnt.nontrivial++;
    hs_add(fnv(obj_hdr(o), (size_t)o->len, (uint64_t)(fmt * 1000 + fld + 1)));
    TRY_CALL(got = w_get((uint64_t)fmt, (uint64_t)fld, (uint64_t)path, obj_hdr(o)), {
        char key[200]; snprintf(key, sizeof key, "%s.%s:%s fault", F->name, R->name, path ? R->getter : "GetField");
        violation("C01", key, cs, "signal %d at %p", g_fault_sig, (void*)g_fault_addr);
        return; });
    g_cnt.transitions++;
    tr_add(got);
    if (g_verbose) { char hx[2 * MAXLEN + 1]; hex(hx, obj_hdr(o), (size_t)o->len); printf("OBS C01 %s.%s path=%d buf=%s got=%llx exp=%llx\n", F->name, R->name, path, hx, (unsigned long long)got, (unsigned long long)exp); }
    if (got != exp) {
        char key[200], hx[2 * MAXLEN + 1];
        snprintf(key, sizeof key, "%s.%s:%s value", F->name, R->name, path ? R->getter : "GetField");
        hex(hx, obj_hdr(o), (size_t)o->len);
        violation("C01", key, cs, "buffer=%s expected=0x%llx got=0x%llx", hx, (unsigned long long)exp, (unsigned long long)got);
    }
    if (memcmp(before.raw, o->raw, obj_size(o))) {
        char key[200];
        snprintf(key, sizeof key, "%s.%s:%s buffer-modified-by-read", F->name, R->name, path ? R->getter : "GetField");
        violation("C01", key, cs, "a read changed the buffer or its surroundings");
        *o = before;
    }
}

static void c01_case(int sub, int fmt, int fld, int path, int bgi, int64_t a, uint64_t val)
{
    const RowFmt* F = &g_fmts[fmt];
    const RowField* R = &F->f[fld];
    Obj o;
    obj_fill(&o, F->len, BG[bgi]);
    if (sub == 0) {
        if (a >= 0) {
            /* a indexes the window: 32 bits before the header, header, 32 bits after */
            int64_t k = a - 32;
            flip_bit(o.raw, (unsigned)(HOFF * 8 + k));
        }
    } else {
        ref_set(obj_hdr(&o), (unsigned)R->off, (unsigned)R->w, val);
    }
    c01_check(sub, fmt, fld, path, bgi, a, val, &o);
}

/* FV(w): value lattice for a w-bit field; calls f(v) */
typedef void (*valfn)(uint64_t v, void* ctx);
static void fv_enum(unsigned w, int all_limit, valfn f, void* ctx)
{
    if (w == 0) { f(0, ctx); return; }
    if (g_lite) {
        if (w <= 8) { for (uint64_t v = 0; v <= mask_w(w); v++) f(v, ctx); return; }
        uint64_t m = mask_w(w);
        f(0, ctx); f(m, ctx); f(0xA5A5A5A5A5A5A5A5ull & m, ctx); f(0x0123456789ABCDEFull & m, ctx);
        for (unsigned i = 0; i < w; i++) { f(1ull << i, ctx); f(m ^ (1ull << i), ctx); }
        for (unsigned pos = 0; pos + 8 <= w; pos += 4) for (uint64_t c = 1; c < 256; c += 2) f(c << pos, ctx);
        return;
    }
    if ((int)w <= all_limit) {
        for (uint64_t v = 0; v <= mask_w(w); v++) { f(v, ctx); if (v == ~0ull) break; }
        return;
    }
    uint64_t m = mask_w(w);
    f(0, ctx); f(m, ctx);
    for (unsigned i = 0; i < w; i++) { f(1ull << i, ctx); f(m ^ (1ull << i), ctx); }
    for (unsigned i = 0; i < w; i++) for (unsigned j = i + 1; j < w; j++) f((1ull << i) | (1ull << j), ctx);
    /* every 16-bit window at every bit position with all 65536 contents */
    for (unsigned pos = 0; pos + 16 <= w; pos++)
        for (uint64_t c = 0; c < 65536; c++) f(c << pos, ctx);
}

static int hexval(char c) { return c <= '9' ? c - '0' : (c | 32) - 'a' + 10; }
static void c02_prior_obj(Obj* o, int fmt)
{
    const RowFmt* F = &g_fmts[fmt];
    obj_fill(o, F->len, 0x00);
    if (F->has_init) for (size_t i = 0; F->init_hex[2 * i] && (int)i < F->len; i++) obj_hdr(o)[i] = (uint8_t)(hexval(F->init_hex[2 * i]) * 16 + hexval(F->init_hex[2 * i + 1]));
}
/* values for the OTHER field of a semantic prior: 0..8, the maximum, one-hot values, and every integer constant the public
 * headers name that fits the field (message types of other formats, format codes, subtypes ...); thorough: all values up to 8 bits */
static int prior_values(const RowField* G, uint64_t* out, int cap)
{
    uint64_t gm = mask_w((unsigned)G->w); int n = 0;
#define PUSH(v) do { uint64_t v_ = (v); int dup_ = 0; for (int i_ = 0; i_ < n; i_++) dup_ |= out[i_] == v_; if (!dup_ && n < cap && v_ <= gm) out[n++] = v_; } while (0)
    if (G->w <= (g_thorough ? 8 : 3)) { for (uint64_t u = 0; u <= gm && n < cap; u++) out[n++] = u; return n; }
    for (uint64_t u = 0; u <= 8; u++) PUSH(u);
    PUSH(gm);
    if (g_lite) return n;
    for (unsigned i = 4; i < (unsigned)G->w; i++) PUSH(1ull << i);
    for (int i = 0; i < g_npool; i++) PUSH(g_pool[i]);
#undef PUSH
    return n;
}
static void pv_enum(unsigned w, valfn f, void* ctx)
{
    uint64_t m = mask_w(w);
    if (w <= 8) { for (uint64_t v = 0; v <= m; v++) f(v, ctx); return; }
    for (uint64_t v = 0; v <= 65 && v <= m; v++) f(v, ctx);
    f(m, ctx); f(0xA5A5A5A5A5A5A5A5ull & m, ctx);
    for (unsigned i = 6; i < w; i++) { f(1ull << i, ctx); f((1ull << i) - 1, ctx); f((1ull << i) + 1, ctx); f(m ^ (1ull << i), ctx); }
}
static int overlaps(const RowField* a, const RowField* b) { return a->off < b->off + b->w && b->off < a->off + a->w; }

/* sub 6: semantic priors for reads - the header is the format's initial image with one other field g := u and
 * the field under test := v; a reader that consults other header bits (a mode-dependent decode) shows here */
static void c01_prior_case(int fmt, int fld, int path, int g, uint64_t u, uint64_t v)
{
    const RowFmt* F = &g_fmts[fmt];
    Obj o; c02_prior_obj(&o, fmt);
    ref_set(obj_hdr(&o), (unsigned)F->f[g].off, (unsigned)F->f[g].w, u & mask_w((unsigned)F->f[g].w));
    ref_set(obj_hdr(&o), (unsigned)F->f[fld].off, (unsigned)F->f[fld].w, v & mask_w((unsigned)F->f[fld].w));
    c01_check(6, fmt, fld, path, g, (int64_t)u, v, &o);
}
typedef struct { int fmt, fld, path, g; uint64_t u; } C01PCtx;
static void c01_pval(uint64_t v, void* vctx) { C01PCtx* c = vctx; c01_prior_case(c->fmt, c->fld, c->path, c->g, c->u, v); }
static void suite_c01_priors(void)
{
    for (int fmt = 0; fmt < g_nfmts; fmt++) {
        const RowFmt* F = &g_fmts[fmt];
        for (int fld = 0; fld < F->nf; fld++) for (int path = 0; path <= F->f[fld].hasg; path++) {
            if (!my_unit()) continue;
            hs_reset();
            const RowField* R = &F->f[fld];
            C01PCtx c = { fmt, fld, path, 0, 0 };
            for (int g = 0; g < F->nf; g++) {
                const RowField* G = &F->f[g];
                if (g == fld || G->w == 0 || overlaps(R, G)) continue;
                uint64_t us[400]; int nu = prior_values(G, us, 400);
                c.g = g;
                for (int ui = 0; ui < nu; ui++) { c.u = us[ui]; pv_enum((unsigned)R->w, c01_pval, &c); }
            }
        }
    }
}

typedef struct { int fmt, fld, path, bgi; } C01Ctx;
static void c01_val(uint64_t v, void* vctx)
{
    C01Ctx* c = vctx;
    c01_case(1, c->fmt, c->fld, c->path, c->bgi, -1, v);
}

/* sub 4: read, flip one bit of the field, read again - inside one world function */
static void c01_reread_case(int fmt, int fld, int path, int bgi, int bit)
{
    const RowFmt* F = &g_fmts[fmt];
    const RowField* R = &F->f[fld];
    Obj o; obj_fill(&o, F->len, BG[bgi]);
    char cs[160];
    SETCS("C01", 4, fmt, fld, path, bgi, bit, 0);
    unsigned k = (unsigned)(R->off + bit);
    uint64_t e1 = ref_get(obj_hdr(&o), (unsigned)R->off, (unsigned)R->w);
    Obj o2 = o; flip_bit(obj_hdr(&o2), k);
    uint64_t e2 = ref_get(obj_hdr(&o2), (unsigned)R->off, (unsigned)R->w);
    uint8_t out8[8]; volatile uint64_t r1 = 0; uint64_t r2 = 0;
    g_cnt.cases++; g_cnt.nontrivial++;
    TRY_CALL(r1 = w_get2((uint64_t)fmt, (uint64_t)fld, (uint64_t)path, obj_hdr(&o), k >> 3, 1u << (7 - (k & 7)), out8), { return; });
    g_cnt.transitions += 2;
    for (int i = 0; i < 8; i++) r2 = (r2 << 8) | out8[i];
    tr_add(r1 ^ (r2 << 1));
    if (g_verbose) printf("OBS C01 reread %s.%s first=%llx second=%llx expected %llx then %llx\n", F->name, R->name, (unsigned long long)r1, (unsigned long long)r2, (unsigned long long)e1, (unsigned long long)e2);
    if (r1 != e1 || r2 != e2) {
        char key[200]; snprintf(key, sizeof key, "%s.%s:%s second read after the buffer changed", F->name, R->name, path ? R->getter : "GetField");
        violation("C01", key, cs, "read 0x%llx, flipped field bit %d, read 0x%llx; expected 0x%llx then 0x%llx", (unsigned long long)r1, bit, (unsigned long long)r2, (unsigned long long)e1, (unsigned long long)e2);
    }
}

static void c01_generic_case(int q, int off, int bits, int bgi, int64_t a)
{
    /* window: quadlets q-1 .. q+3 (5 quadlets) inside a 64-byte object */
    uint8_t raw[PRE + 8 + GBUF + POST] __attribute__((aligned(16))), before[sizeof raw];
    const size_t glen = q <= 6 ? 48 : GBUF, rsz = (size_t)HOFF + glen + POST;     /* a small object for descriptors near the start */
    for (size_t i = 0; i < rsz; i++) raw[i] = canary_byte((int)i);
    uint8_t* pdu = raw + HOFF;          /* pdu base = quadlet 0 */
    memset(pdu, BG[bgi], glen);
    if (a >= 0) flip_bit(pdu, (unsigned)a);
    memcpy(before, raw, rsz);
    unsigned boff = (unsigned)(q * 32 + off);
    uint64_t exp = ref_get(pdu, boff, (unsigned)bits);
    volatile uint64_t got = 0;
    char cs[160];
    SETCS("C01", 2, (long long)(q), (long long)(off), (long long)(bits), (long long)(bgi), (long long)((long long)a), 0);
    g_cnt.cases++;
    if (exp) g_cnt.nontrivial++;
    hs_add(fnv(pdu + (q > 1 ? (q - 1) * 4 : 0), 24, (uint64_t)(q * 100000 + off * 100 + bits + 7) * 8191u + (uint64_t)(a + 1)));
    TRY_CALL(got = w_gget((uint64_t)q, (uint64_t)off, (uint64_t)bits, pdu), {
        char key[128]; snprintf(key, sizeof key, "generic-reader q=%d off=%d bits=%d fault", q, off, bits);
        violation("C01", key, cs, "signal %d", g_fault_sig); return; });
    g_cnt.transitions++;
    tr_add(got);
    if (g_verbose) printf("OBS C01 generic q=%d off=%d bits=%d got=%llx exp=%llx\n", q, off, bits, (unsigned long long)got, (unsigned long long)exp);
    if (got != exp) {
        char key[128]; snprintf(key, sizeof key, "generic-reader off=%d bits=%d value", off, bits);
        violation("C01", key, cs, "expected=0x%llx got=0x%llx", (unsigned long long)exp, (unsigned long long)got);
    }
    if (memcmp(before, raw, rsz)) {
        char key[128]; snprintf(key, sizeof key, "generic-reader off=%d bits=%d buffer-modified", off, bits);
        violation("C01", key, cs, "read modified memory");
    }
}

static void suite_c01(void)
{
    for (int fmt = 0; fmt < g_nfmts; fmt++) {
        const RowFmt* F = &g_fmts[fmt];
        for (int fld = 0; fld < F->nf; fld++) {
            const RowField* R = &F->f[fld];
            for (int path = 0; path <= R->hasg; path++) {
                int nbits = 8 * F->len + 64;
                for (int bgi = 0; bgi < 4; bgi++) {
                    if (!my_unit()) continue;
                    hs_reset();
                    c01_case(0, fmt, fld, path, bgi, -1, 0);
                    for (int k = 0; k < nbits; k++) c01_case(0, fmt, fld, path, bgi, k, 0);
                    if (g_thorough && F->len <= 16) {
                        /* H2: every pair of flipped header bits */
                        Obj o;
                        for (int k1 = 0; k1 < 8 * F->len; k1++) for (int k2 = k1 + 1; k2 < 8 * F->len; k2++) {
                            obj_fill(&o, F->len, BG[bgi]);
                            flip_bit(obj_hdr(&o), (unsigned)k1); flip_bit(obj_hdr(&o), (unsigned)k2);
                            c01_check(3, fmt, fld, path, bgi, k1 * 1000 + k2, 0, &o);
                        }
                    }
                    C01Ctx c = { fmt, fld, path, bgi };
                    fv_enum((unsigned)R->w, g_thorough ? 20 : 16, c01_val, &c);
                }
            }
        }
    }
    for (int fmt = 0; fmt < g_nfmts; fmt++) for (int fld = 0; fld < g_fmts[fmt].nf; fld++) {
        if (!my_unit()) continue;
        const RowField* R = &g_fmts[fmt].f[fld];
        for (int path = 0; path <= R->hasg; path++) for (int bgi = 0; bgi < 4; bgi++) for (int bit = 0; bit < R->w; bit++) c01_reread_case(fmt, fld, path, bgi, bit);
    }
    suite_c01_priors();
    if (my_unit()) for (int q = 0; q < 3; q++) for (int off = 0; off < 32; off += 5) for (int bits = 1; bits <= 64; bits += 7) {
        uint8_t buf[64], out8[8]; memset(buf, 0xA5, sizeof buf);
        unsigned k = (unsigned)(q * 32 + off);
        uint64_t e1 = ref_get(buf, k, (unsigned)bits); volatile uint64_t r1 = 0; uint64_t r2 = 0;
        TRY_CALL(r1 = w_gget2((uint64_t)q, (uint64_t)off, (uint64_t)bits, buf, k >> 3, 1u << (7 - (k & 7)), out8), { r1 = ~e1; });
        uint64_t e2 = ref_get(buf, k, (unsigned)bits);
        for (int i = 0; i < 8; i++) r2 = (r2 << 8) | out8[i];
        g_cnt.cases++; g_cnt.transitions += 2;
        if (r1 != e1 || r2 != e2) violation("C01", "generic-reader second read after the buffer changed", "C01:5:0:0:0:0:0:0", "q=%d off=%d bits=%d: 0x%llx then 0x%llx, expected 0x%llx then 0x%llx", q, off, bits, (unsigned long long)r1, (unsigned long long)r2, (unsigned long long)e1, (unsigned long long)e2);
    }
    sample("C01 %s.%s by-identifier and via %s: one-hot walk over %d window bits x 4 backgrounds, then every value of the lattice FV(%d) placed in the field",
           g_fmts[13].name, g_fmts[13].f[11].name, g_fmts[13].f[11].getter, 8 * g_fmts[13].len + 64, g_fmts[13].f[11].w);
    /* generic shapes */
    static const int qs[3] = {1, 2, 6};   /* window has one spare quadlet before the field's first */
    for (int qi = 0; qi < (g_lite ? 1 : 3); qi++) for (int off = 0; off < 32; off++) for (int bits = 0; bits <= 64; bits++) {
        if (!my_unit()) continue;
        hs_reset();
        int q = qs[qi];
        for (int bgi = 0; bgi < 4; bgi++) {
            c01_generic_case(q, off, bits, bgi, -1);
            /* flip every bit of quadlets q-1 .. q+3 */
            for (int k = (q - 1) * 32; k < (q + 4) * 32; k++) c01_generic_case(q, off, bits, bgi, k);
        }
    }
    /* descriptors far into the PDU: every start quadlet the 8-bit descriptor can name near its arithmetic boundaries */
    {
        static const int hq[] = {31, 32, 62, 63, 64, 65, 127, 128, 191, 192, 253, 254, 255};
        static const int hoff[] = {0, 5, 16, 31}, hbits[] = {1, 8, 27, 32, 33, 59, 64};
        for (unsigned qi = 0; qi < sizeof hq / sizeof hq[0]; qi++) for (int oi = 0; oi < 4; oi++) for (int bi = 0; bi < 7; bi++) {
            if (!my_unit()) continue;
            hs_reset();
            int q = hq[qi];
            for (int bgi = 0; bgi < 4; bgi++) {
                c01_generic_case(q, hoff[oi], hbits[bi], bgi, -1);
                for (int k = (q - 1) * 32; k < (q + 4) * 32; k++) c01_generic_case(q, hoff[oi], hbits[bi], bgi, k);
                for (int k = 0; k < 96; k++) c01_generic_case(q, hoff[oi], hbits[bi], bgi, k);      /* wrap-around to the start of the PDU */
            }
        }
    }
    sample("C01 generic reader: descriptor {quadlet 2, offset 27, bits 64} on background A5 with bit 91 flipped");
}

static void replay_c01(int sub, long long p[8])
{
    if (sub == 2) c01_generic_case((int)p[0], (int)p[1], (int)p[2], (int)p[3], p[4]);
    else if (sub == 4) c01_reread_case((int)p[0], (int)p[1], (int)p[2], (int)p[3], (int)p[4]);
    else if (sub == 5) { g_nslices = 1; g_unit = 0; suite_c01(); }
    else if (sub == 6) c01_prior_case((int)p[0], (int)p[1], (int)p[2], (int)p[3], (uint64_t)p[4], (uint64_t)p[5]);
    else if (sub == 3) {
        Obj o; const RowFmt* F = &g_fmts[p[0]];
        obj_fill(&o, F->len, BG[p[3]]);
        flip_bit(obj_hdr(&o), (unsigned)(p[4] / 1000)); flip_bit(obj_hdr(&o), (unsigned)(p[4] % 1000));
        c01_check(3, (int)p[0], (int)p[1], (int)p[2], (int)p[3], p[4], 0, &o);
    } else c01_case(sub, (int)p[0], (int)p[1], (int)p[2], (int)p[3], p[4], (uint64_t)p[5]);
}

/* ======================================================================= */
/* C02: writes                                                              */
/* prior buffer: background bgi with window bit a flipped (a<0: none)       */
/* ======================================================================= */
static void c02_run(const char* cs, int fmt, int fld, int path, Obj* o, uint64_t v)
{
    const RowFmt* F = &g_fmts[fmt];
    const RowField* R = &F->f[fld];
    Obj exp = *o;
    ref_set(obj_hdr(&exp), (unsigned)R->off, (unsigned)R->w, v & mask_w((unsigned)R->w));
    const char* fn = path ? R->setter : "SetField";
    g_cnt.cases++;
    if (memcmp(exp.raw, o->raw, obj_size(o))) g_cnt.nontrivial++;
    hs_add(fnv(obj_hdr(o), (size_t)o->len, v + (uint64_t)(fmt * 1000 + fld + 1)));
    char key[200];
    TRY_CALL(w_set((uint64_t)fmt, (uint64_t)fld, (uint64_t)path, obj_hdr(o), v), {
        snprintf(key, sizeof key, "%s.%s:%s fault", F->name, R->name, fn);
        violation("C02", key, cs, "signal %d at %p", g_fault_sig, (void*)g_fault_addr);
        return; });
    g_cnt.transitions++;
    tr_add(fnv(o->raw, obj_size(o), 0));
    if (g_verbose) { char h1[2 * MAXLEN + 1], h2[2 * MAXLEN + 1]; hex(h1, obj_hdr(o), (size_t)o->len); hex(h2, obj_hdr(&exp), (size_t)o->len); printf("OBS C02 %s.%s %s v=%llx after=%s expected=%s\n", F->name, R->name, fn, (unsigned long long)v, h1, h2); }
    if (memcmp(exp.raw, o->raw, obj_size(o))) {
        int hdr_only = !memcmp(exp.raw, o->raw, HOFF) && !memcmp(exp.raw + HOFF + o->len, o->raw + HOFF + o->len, POST);
        /* classify: field bits wrong, other header bits changed, surroundings changed */
        uint64_t stored = ref_get(obj_hdr(o), (unsigned)R->off, (unsigned)R->w);
        Obj tmp = *o;
        ref_set(obj_hdr(&tmp), (unsigned)R->off, (unsigned)R->w, v & mask_w((unsigned)R->w));
        const char* what = !hdr_only ? "surroundings-changed" : memcmp(tmp.raw, exp.raw, obj_size(o)) ? "other-bits-changed" : "stored-value";
        char h1[2 * MAXLEN + 1], h2[2 * MAXLEN + 1];
        hex(h1, obj_hdr(o), (size_t)o->len); hex(h2, obj_hdr(&exp), (size_t)o->len);
        snprintf(key, sizeof key, "%s.%s:%s %s", F->name, R->name, fn, what);
        violation("C02", key, cs, "v=0x%llx stored=0x%llx after=%s expected=%s", (unsigned long long)v, (unsigned long long)stored, h1, h2);
        return;
    }
    /* read back through both readers */
    for (int rp = 0; rp <= R->hasg; rp++) {
        volatile uint64_t got = 0;
        TRY_CALL(got = w_get((uint64_t)fmt, (uint64_t)fld, (uint64_t)rp, obj_hdr(o)), { got = ~0ull; });
        g_cnt.transitions++;
        if (got != (v & mask_w((unsigned)R->w))) {
            snprintf(key, sizeof key, "%s.%s:%s read-back via %s", F->name, R->name, fn, rp ? R->getter : "GetField");
            violation("C02", key, cs, "v=0x%llx read back 0x%llx", (unsigned long long)v, (unsigned long long)got);
        }
    }
}

static void c02_case(int fmt, int fld, int path, int bgi, int64_t a, uint64_t v)
{
    const RowFmt* F = &g_fmts[fmt];
    Obj o;
    obj_fill(&o, F->len, BG[bgi]);
    if (a >= 0) flip_bit(o.raw, (unsigned)(HOFF * 8 + a - 32));
    char cs[160];
    SETCS("C02", 0, (long long)(fmt), (long long)(fld), (long long)(path), (long long)(bgi), (long long)((long long)a), (long long)((unsigned long long)v));
    c02_run(cs, fmt, fld, path, &o, v);
}

typedef struct { int fmt, fld, path, bgi; int64_t a; } C02Ctx;
static void c02_val(uint64_t v, void* vctx)
{
    C02Ctx* c = vctx;
    c02_case(c->fmt, c->fld, c->path, c->bgi, c->a, v);
}

static void sv_small(unsigned w, valfn f, void* ctx);
#define sv_small_fn sv_small
/* Semantic priors: the prior buffer looks like a real header - the format's initial image (zeros where there is no
 * initialiser) with one or two OTHER fields holding small values - so that a writer which consults the header it is
 * writing into (a clamp by format, a mode switch by subtype) shows. sub 3: one other field g := u; sub 4: two. */
static void c02_prior_case(int fmt, int fld, int path, int g, uint64_t u, uint64_t v)
{
    const RowFmt* F = &g_fmts[fmt];
    Obj o; c02_prior_obj(&o, fmt);
    int selfmode = g / 1000;      /* g >= 1000: the field under test holds all-ones before the write; g >= 2000: it holds (g/1000 - 2) */
    if (selfmode == 1) ref_set(obj_hdr(&o), (unsigned)F->f[fld].off, (unsigned)F->f[fld].w, mask_w((unsigned)F->f[fld].w));
    if (selfmode >= 2) ref_set(obj_hdr(&o), (unsigned)F->f[fld].off, (unsigned)F->f[fld].w, (uint64_t)(selfmode - 2) & mask_w((unsigned)F->f[fld].w));
    ref_set(obj_hdr(&o), (unsigned)F->f[g % 1000].off, (unsigned)F->f[g % 1000].w, u & mask_w((unsigned)F->f[g % 1000].w));
    char cs[160];
    SETCS("C02", 3, (long long)(fmt), (long long)(fld), (long long)(path), (long long)(g), (long long)(u), (long long)((unsigned long long)v));
    c02_run(cs, fmt, fld, path, &o, v);
}
static void c02_prior2_case(int fmt, int fld, int path, int g1, int g2, int u1, int u2, uint64_t v)
{
    const RowFmt* F = &g_fmts[fmt];
    Obj o; c02_prior_obj(&o, fmt);
    ref_set(obj_hdr(&o), (unsigned)F->f[g1].off, (unsigned)F->f[g1].w, (uint64_t)u1 & mask_w((unsigned)F->f[g1].w));
    ref_set(obj_hdr(&o), (unsigned)F->f[g2].off, (unsigned)F->f[g2].w, (uint64_t)u2 & mask_w((unsigned)F->f[g2].w));
    char cs[160];
    SETCS("C02", 4, (long long)(fmt), (long long)(fld), (long long)(path), (long long)(g1 * 1000 + g2), (long long)(u1 * 1000 + u2), (long long)((unsigned long long)v));
    c02_run(cs, fmt, fld, path, &o, v);
}
typedef struct { int fmt, fld, path, g1, g2, u1, u2; uint64_t u; } C02PCtx;
static void c02_pval(uint64_t v, void* vctx) { C02PCtx* c = vctx; if (c->g2 < 0) c02_prior_case(c->fmt, c->fld, c->path, c->g1, c->u, v); else c02_prior2_case(c->fmt, c->fld, c->path, c->g1, c->g2, c->u1, c->u2, v); }
static void suite_c02_priors(void)
{
    for (int fmt = 0; fmt < g_nfmts; fmt++) {
        const RowFmt* F = &g_fmts[fmt];
        for (int fld = 0; fld < F->nf; fld++) for (int path = 0; path <= F->f[fld].hass; path++) {
            if (!my_unit()) continue;
            hs_reset();
            const RowField* R = &F->f[fld];
            C02PCtx c = { fmt, fld, path, 0, -1, 0, 0, 0 };
            for (int g = 0; g < F->nf; g++) {
                const RowField* G = &F->f[g];
                if (g == fld || G->w == 0 || overlaps(R, G)) continue;
                uint64_t us[400]; int nu = prior_values(G, us, 400);
                c.g1 = g; c.g2 = -1;
                for (int ui = 0; ui < nu; ui++) { c.u = us[ui]; if (g_lite) { sv_small_fn((unsigned)R->w, c02_pval, &c); } else pv_enum((unsigned)R->w, c02_pval, &c); }
                /* the same with the field itself at all-ones before the write (a 1 -> 0 transition that triggers something) */
                c.g1 = g + 1000;
                for (int ui = 0; ui < nu; ui++) { c.u = us[ui]; sv_small_fn((unsigned)R->w, c02_pval, &c); }
                /* ... and with the field itself at a small value (a code such as a format) that is then changed to another small value */
                if (!g_lite && R->w >= 2 && R->w <= 16) for (int sv = 1; sv <= 8 && (uint64_t)sv <= mask_w((unsigned)R->w); sv++) {
                    c.g1 = g + 1000 * (2 + sv);
                    for (int ui = 0; ui < nu; ui++) { c.u = us[ui]; for (uint64_t v = 0; v <= 8 && v <= mask_w((unsigned)R->w); v++) c02_pval(v, &c); }
                }
                c.g1 = g;
            }
            if (!g_thorough) continue;
            /* two other fields with the values 1..4 each */
            for (int g1 = 0; g1 < F->nf; g1++) for (int g2 = g1 + 1; g2 < F->nf; g2++) {
                const RowField* A = &F->f[g1]; const RowField* B = &F->f[g2];
                if (g1 == fld || g2 == fld || A->w == 0 || B->w == 0 || overlaps(R, A) || overlaps(R, B) || overlaps(A, B)) continue;
                c.g1 = g1; c.g2 = g2;
                for (c.u1 = 1; c.u1 <= 4; c.u1++) for (c.u2 = 1; c.u2 <= 4; c.u2++) pv_enum((unsigned)R->w, c02_pval, &c);
            }
        }
    }
    sample("C02 semantic priors: Pcm.bit_depth via Avtp_Pcm_SetBitDepth on the Avtp_Pcm_Init image with format := 4, every value 0..255");
}

static void sv_small(unsigned w, valfn f, void* ctx)
{
    uint64_t m = mask_w(w);
    f(0, ctx); f(m, ctx); f(0xA5A5A5A5A5A5A5A5ull & m, ctx); f(1, ctx);
    /* wider than the field */
    if (w < 64) { f(1ull << w, ctx); f((1ull << w) + 1, ctx); f(~m, ctx); f(~m | 1, ctx); }
    f(1ull << 63, ctx); f(~0ull, ctx); f(0x0123456789ABCDEFull, ctx);
    if (g_lite) return;
    for (unsigned i = 0; i < 64; i++) f(1ull << i, ctx);
}

static void suite_c02(void)
{
    for (int fmt = 0; fmt < g_nfmts; fmt++) {
        const RowFmt* F = &g_fmts[fmt];
        for (int fld = 0; fld < F->nf; fld++) {
            const RowField* R = &F->f[fld];
            for (int path = 0; path <= R->hass; path++) {
                /* window: quadlets touched by the field +- one quadlet (bits relative to header start, +32 bias) */
                int q0 = R->off / 32 - 1, q1 = (R->w ? (R->off + R->w - 1) / 32 : R->off / 32) + 1;
                int lo = q0 * 32, hi = (q1 + 1) * 32;
                if (lo < -32) lo = -32;
                if (hi > 8 * F->len + 32) hi = 8 * F->len + 32;
                for (int bgi = 0; bgi < 4; bgi++) {
                    if (!my_unit()) continue;
                    hs_reset();
                    C02Ctx c = { fmt, fld, path, bgi, -1 };
                    /* all of FV(w) plus the overflow probes on the plain background */
                    fv_enum((unsigned)R->w, g_thorough ? 20 : 16, c02_val, &c);
                    sv_small((unsigned)R->w, c02_val, &c);
                    for (int k = lo; k < hi; k++) {
                        c.a = k + 32;
                        sv_small((unsigned)R->w, c02_val, &c);
                        if (g_thorough && R->w <= 12) fv_enum((unsigned)R->w, 12, c02_val, &c);
                    }
                }
            }
        }
    }
    suite_c02_priors();
    sample("C02 Can.can_identifier via Avtp_Can_SetCanIdentifier: prior = background 5A with window bit 131 flipped, v = 0x20000001 (wider than 29 bits); whole object (16 canary + header + 32 trailing bytes) diffed against ref_set, then read back by both readers");
    /* generic writer shapes: low quadlets with every offset/width, then a selection far into the PDU */
    static const int qs[16] = {1, 2, 6, 31, 32, 62, 63, 64, 65, 127, 128, 191, 192, 253, 254, 255};
    for (int qi = 0; qi < (g_lite ? 1 : 16); qi++) for (int off = 0; off < 32; off++) for (int bits = 0; bits <= 64; bits++) {
        if (qi >= 3 && !((off == 0 || off == 5 || off == 16 || off == 31) && (bits == 1 || bits == 8 || bits == 27 || bits == 32 || bits == 33 || bits == 59 || bits == 64))) continue;
        if (!my_unit()) continue;
        hs_reset();
        int q = qs[qi];
        uint64_t m = mask_w((unsigned)bits);
        uint64_t vals[8] = {0, m, 0xA5A5A5A5A5A5A5A5ull, 1, ~0ull, bits < 64 ? (1ull << bits) : 2, 0x0123456789ABCDEFull, ~m};
        for (int bgi = 0; bgi < 4; bgi++) for (int vi = 0; vi < 8; vi++) for (int k = -1; k < (q + 4) * 32; k++) {
            if (k >= 0 && (k < (q - 1) * 32) && !(q > 6 && k < 96)) continue;
            uint8_t raw[PRE + 8 + GBUF + POST] __attribute__((aligned(16))), exp[sizeof raw];
            const size_t glen = q <= 6 ? 48 : GBUF, rsz = (size_t)HOFF + glen + POST;
            for (size_t i = 0; i < rsz; i++) raw[i] = canary_byte((int)i);
            uint8_t* pdu = raw + HOFF;
            memset(pdu, BG[bgi], glen);
            if (k >= 0) flip_bit(pdu, (unsigned)k);
            memcpy(exp, raw, rsz);
            ref_set(exp + HOFF, (unsigned)(q * 32 + off), (unsigned)bits, vals[vi] & m);
            char cs[160];
            SETCS("C02", 2, (long long)(q), (long long)(off), (long long)(bits), (long long)(bgi), (long long)(k), (long long)((unsigned long long)vals[vi]));
            g_cnt.cases++;
            if (memcmp(exp, raw, rsz)) g_cnt.nontrivial++;
            hs_add(fnv(pdu + (q > 1 ? (q - 1) * 4 : 0), 24, vals[vi] + (uint64_t)(q * 100000 + off * 100 + bits) * 8191u + (uint64_t)(k + 1)));
            int faulted = 0;
            TRY_CALL(w_gset((uint64_t)q, (uint64_t)off, (uint64_t)bits, pdu, vals[vi]), { faulted = 1; });
            g_cnt.transitions++;
            tr_add(fnv(raw, rsz, 0));
            if (faulted || memcmp(exp, raw, rsz)) {
                char key[128]; snprintf(key, sizeof key, "generic-writer off=%d bits=%d %s", off, bits, faulted ? "fault" : "image");
                char h1[81], h2[81]; hex(h1, pdu + (q > 1 ? (q - 1) * 4 : 0), 24); hex(h2, exp + HOFF + (q > 1 ? (q - 1) * 4 : 0), 24);
                violation("C02", key, cs, "v=0x%llx after=%s expected=%s", (unsigned long long)vals[vi], h1, h2);
            }
        }
    }
    sample("C02 generic writer: descriptor {quadlet 6, offset 5, bits 64} (three quadlets touched), v = all ones, background 00 with bit 223 flipped");
}

static void replay_c02(int sub, long long p[8])
{
    if (sub == 0) c02_case((int)p[0], (int)p[1], (int)p[2], (int)p[3], p[4], (uint64_t)p[5]);
    else if (sub == 3) c02_prior_case((int)p[0], (int)p[1], (int)p[2], (int)p[3], (uint64_t)p[4], (uint64_t)p[5]);
    else if (sub == 4) c02_prior2_case((int)p[0], (int)p[1], (int)p[2], (int)(p[3] / 1000), (int)(p[3] % 1000), (int)(p[4] / 1000), (int)(p[4] % 1000), (uint64_t)p[5]);
    else {
        int q = (int)p[0], off = (int)p[1], bits = (int)p[2], bgi = (int)p[3], k = (int)p[4];
        uint8_t raw[PRE + 8 + GBUF + POST] __attribute__((aligned(16)));
        for (size_t i = 0; i < sizeof raw; i++) raw[i] = canary_byte((int)i);
        memset(raw + HOFF, BG[bgi], GBUF);
        if (k >= 0) flip_bit(raw + HOFF, (unsigned)k);
        char h1[81]; hex(h1, raw + HOFF + (q > 1 ? (q - 1) * 4 : 0), 24); printf("OBS C02 generic before=%s\n", h1);
        w_gset((uint64_t)q, (uint64_t)off, (uint64_t)bits, raw + HOFF, (uint64_t)p[5]);
        hex(h1, raw + HOFF + (q > 1 ? (q - 1) * 4 : 0), 24); printf("OBS C02 generic after =%s\n", h1);
    }
}

#include "explore_fields2.inc"


/* the thunks give every argument expression of a library call a side effect; an entry point that evaluates one twice
 * (a function turned into a macro) is reported once per run */
static void check_arg_evaluation(const char* suite)
{
    if (!w_ev_mismatches()) return;
    uint8_t nm[96]; w_ev_last(nm, sizeof nm);
    char key[160]; snprintf(key, sizeof key, "%s evaluates an argument expression more or less than once", (char*)nm);
    violation(suite, key, "", "%llu calls; the call site passes expressions with side effects, e.g. f(*p++)", (unsigned long long)w_ev_mismatches());
}

/* ======================================================================= */
int main(int argc, char** argv)
{
    const char* cs = NULL; int plant = 0;
    for (int i = 1; i < argc; i++) {
        if (!strcmp(argv[i], "--callmode")) { w_set_callmode((uint64_t)atoi(argv[++i])); continue; }
        if (!strcmp(argv[i], "--worldinfo")) { printf("model=%llu big=%llu\n", (unsigned long long)w_world_model(), (unsigned long long)w_world_id()); return 0; }
        if (!strcmp(argv[i], "--suite")) g_suite = argv[++i];
        else if (!strcmp(argv[i], "--tier")) { i++; g_thorough = !strcmp(argv[i], "thorough"); g_lite = !strcmp(argv[i], "lite"); }
        else if (!strcmp(argv[i], "--off")) g_off = atoi(argv[++i]) & 7;
        else if (!strcmp(argv[i], "--slice")) sscanf(argv[++i], "%d/%d", &g_slice, &g_nslices);
        else if (!strcmp(argv[i], "--case")) cs = argv[++i];
        else if (!strcmp(argv[i], "--plant")) plant = 1;
    }
    setvbuf(stdout, NULL, _IOFBF, 1 << 16);
    fault_install();
    if (plant) {
        /* planted-bug self-test: a deliberately wrong spec row (Can.pad shifted by one bit) must make the oracle fire */
        int fmt = 0; for (int i = 0; i < g_nfmts; i++) if (!strcmp(g_fmts[i].name, "Can")) fmt = i;
        RowField* rows = (RowField*)g_fmts[fmt].f;
        rows[2].off += 1;
        g_max_per_key = 0;
        for (int path = 0; path < 2; path++) for (int bgi = 0; bgi < 4; bgi++) for (int k = 0; k < 8 * g_fmts[fmt].len; k++) { c01_case(0, fmt, 2, path, bgi, k, 0); c02_case(fmt, 2, path, bgi, k, 3); }
        emit_counters("PLANT");
        return 0;
    }
    if (cs) {
        g_verbose = 1; g_replay = 1;
        char suite[8]; int sub; long long p[8] = {0};
        char buf[256]; strncpy(buf, cs, sizeof buf - 1); buf[sizeof buf - 1] = 0;
        char* tok = strtok(buf, ":"); strncpy(suite, tok, 7); suite[7] = 0;
        tok = strtok(NULL, ":"); sub = atoi(tok);
        for (int k = 0; k < 8 && (tok = strtok(NULL, ":")); k++) p[k] = (k >= 5 && (strcmp(suite, "C05") || sub == 4)) ? (long long)strtoull(tok, NULL, 16) : atoll(tok);
        if (!strcmp(suite, "C01")) replay_c01(sub, p);
        else if (!strcmp(suite, "C02")) replay_c02(sub, p);
        else replay_other(suite, sub, p);
        emit_counters(suite);
        return g_cnt.violations ? 1 : 0;
    }
    if (!strcmp(g_suite, "C01")) suite_c01();
    else if (!strcmp(g_suite, "C02")) suite_c02();
    else if (!run_other(g_suite)) { fprintf(stderr, "unknown suite %s\n", g_suite); return 2; }
    check_arg_evaluation(g_suite);
    emit_counters(g_suite);
    return 0;
}
