/* E1 explorer for the hand-written serialisers: C06 (ACF-CAN builders), C07/C08
 * (VSS codec), C09 (VSS finalisation), C10 (VSS string arrays), C13
 * (byte-order helpers). Native checker; the world is reached through the flat
 * ABI of world/wrap_ser.c and world/wrap_generic.c. */
#include "common.h"
#include "../world/world.h"
#include "../world/world_ser.h"
#include "rows_gen.h"

static int g_thorough;
static int g_lite;
static int g_src_shift;   /* C06: the caller's payload buffer ends this many bytes before the guard page (its alignment varies) */
static int g_plant;      /* self-test: the reference image is deliberately wrong in one byte */
static int g_off = -1;      /* C15: >= 0 places every PDU at a 16-byte boundary + g_off (always with a trailing canary) */
static int g_slice = 0, g_nslices = 1;
static uint64_t g_unit;
static int my_unit(void) { return (int)(g_unit++ % (uint64_t)g_nslices) == g_slice; }
static Guarded gA, gB, gC;      /* message, source, destination */
static char cs[200];
/* where a message of `total` bytes goes: flush against the guard page (tail 0), before `*tail` canary bytes,
 * or - under --off - at the requested residue mod 16 */
static uint8_t* place_msg(Guarded* g, int total, int* tail)
{
    if (g_off < 0) return g->hi - total - *tail;
    uintptr_t m = ((uintptr_t)(g->hi - total - 64 - 16)) & ~(uintptr_t)15;
    m += (uintptr_t)g_off;
    *tail = (int)(g->hi - (uint8_t*)m - total);
    return (uint8_t*)m;
}            /* lazy case string buffer (see SETCS) */

static int fmt_index(const char* name)
{
    for (int i = 0; i < g_nfmts; i++) if (!strcmp(g_fmts[i].name, name)) return i;
    fprintf(stderr, "no format %s\n", name); exit(2);
}
static const RowField* fld(int fmt, const char* name)
{
    for (int i = 0; i < g_fmts[fmt].nf; i++) if (!strcmp(g_fmts[fmt].f[i].name, name)) return &g_fmts[fmt].f[i];
    fprintf(stderr, "no field %s\n", name); exit(2);
}
static void rset(uint8_t* b, const RowField* f, uint64_t v) { ref_set(b, (unsigned)f->off, (unsigned)f->w, v & mask_w((unsigned)f->w)); }
static uint64_t rget(const uint8_t* b, const RowField* f) { return ref_get(b, (unsigned)f->off, (unsigned)f->w); }

/* ======================================================================= */
/* C06                                                                      */
/* ======================================================================= */
static uint32_t c06_id(int i)
{
    static const uint32_t fixed[8] = {0, 1, 0x7FF, 0x800, 0x1FFFFFFF, 0x20000000u, 0x80000000u, 0xFFFFFFFFu};
    if (i < 8) return fixed[i];
    if (i < 40) return 1u << (i - 8);
    return ~(1u << (i - 40));
}
#define C06_NIDS 72
static uint8_t c06_pay(int pat, int i, int len)
{
    switch (pat) {
    case 0: return (uint8_t)(i + 1);
    case 1: return 0x00;
    case 2: return 0xFF;
    default: return (uint8_t)(i == len / 2 ? 0x80 : 0x00);
    }
}

/* packed parameters: brief(1) mode(1) placement(1) variant(1) pat(2) prior(3) fill(1) */
static void c06_case(int packed, int len, int idi)
{
    int brief = packed & 1, mode = (packed >> 1) & 1, placement = (packed >> 2) & 1, variant = (packed >> 3) & 1,
        pat = (packed >> 4) & 3, prior = (packed >> 6) & 7, fill = (packed >> 9) & 1, inplace = (packed >> 10) & 1;
    int fmt = fmt_index(brief ? "CanBrief" : "Can");
    int hdr = g_fmts[fmt].len;
    int pad = (4 - len % 4) % 4;
    int total = hdr + len + pad;
    uint32_t id = c06_id(idi);
    int tail = placement ? 64 : 0;
    uint8_t* msg = place_msg(&gA, total, &tail);
    uint8_t* pre = msg - 16;
    uint8_t* src = gB.hi - len - (g_src_shift & 3);   /* payload source: exact extent when the shift is 0 */
    if (g_src_shift == 4) src = msg + hdr;       /* the payload is already in place: source == destination */
    if (g_src_shift == 5) src = NULL;            /* an empty payload given as (NULL, 0) */
    if (g_src_shift == 6) src = msg + 8;         /* the payload lies inside the header that is about to be written (a brief message upgraded in place) */
    uint8_t fillb = fill ? 0xA5 : 0xFF;
    static uint8_t exp[16 + 24 + 2100 + 96];
    for (int i = 0; i < 16; i++) pre[i] = (uint8_t)(0x3C + i);
    /* prior header */
    switch (prior) {
    case 0: memset(msg, 0x00, (size_t)hdr); break;
    case 1: memset(msg, 0xFF, (size_t)hdr); break;
    case 2: memset(msg, 0xA5, (size_t)hdr); break;
    case 3: memset(msg, 0x5A, (size_t)hdr); break;
    default: /* initialised, then every other field all-ones */
        memset(msg, 0xFF, (size_t)hdr); rset(msg, fld(fmt, "acf_msg_type"), brief ? 2 : 1); break;
    }
    memset(msg + hdr, fillb, (size_t)(len + pad + tail));
    for (int i = 0; i < len; i++) src[i] = c06_pay(pat, i, len);
    if (prior == 5) {
        /* the header the builder is about to produce is already there (cyclic traffic re-using its buffer), the pad bytes are dirty */
        memset(msg, 0x00, (size_t)hdr);
        rset(msg, fld(fmt, "acf_msg_type"), brief ? 2 : 1);
        rset(msg, fld(fmt, "acf_msg_length"), (uint64_t)(total / 4));
        rset(msg, fld(fmt, "pad"), (uint64_t)pad);
        rset(msg, fld(fmt, "eff"), id > 0x7FF);
        rset(msg, fld(fmt, "fdf"), (uint64_t)variant);
        rset(msg, fld(fmt, "can_identifier"), id);
    }
    memcpy(exp, pre, (size_t)(16 + total + tail));
    uint8_t* em = exp + 16;
    if (len) memcpy(em + hdr, src, (size_t)len);
    memset(em + hdr + len, 0, (size_t)pad);
    rset(em, fld(fmt, "acf_msg_length"), (uint64_t)(total / 4));
    rset(em, fld(fmt, "pad"), (uint64_t)pad);
    rset(em, fld(fmt, "eff"), id > 0x7FF);
    rset(em, fld(fmt, "fdf"), (uint64_t)variant);
    rset(em, fld(fmt, "can_identifier"), id);
    if (g_plant && len > 0) em[hdr] ^= 0x80;
    SETCS("C06", 0, packed, len, idi, g_src_shift, 0, 0);
    g_cnt.cases++; g_cnt.nontrivial++;
    hs_add(fnv(msg, (size_t)hdr, fnv(src, (size_t)len, (uint64_t)packed * 131 + (uint64_t)idi)));
    volatile uint64_t rc = 0;
    char key[200];
    const char* fn = brief ? (mode ? "CanBrief steps(copy;fields;Finalize)" : "Avtp_CanBrief_SetPayload") : (mode ? (inplace ? "Can steps(write payload in place;fields;Finalize)" : "Can steps(SetPayload;fields;Finalize)") : "Avtp_Can_CreateAcfMessage");
    TRY_CALL({
        if (!brief) { if (mode && inplace) w_can_steps_inplace(msg, id, src, (uint64_t)len, (uint64_t)variant); else if (mode) w_can_steps(msg, id, src, (uint64_t)len, (uint64_t)variant); else w_can_create(msg, id, src, (uint64_t)len, (uint64_t)variant); }
        else rc = mode ? w_canbrief_steps(msg, id, src, (uint64_t)len, (uint64_t)variant) : w_canbrief_create(msg, id, src, (uint64_t)len, (uint64_t)variant);
    }, {
        long rel = (long)((intptr_t)g_fault_addr - (intptr_t)msg);
        snprintf(key, sizeof key, "%s fault len%%4=%d", fn, len % 4);
        violation("C06", key, cs, "len=%d id=0x%x: signal %d at message%+ld (message is %d bytes)", len, id, g_fault_sig, rel, total);
        return; });
    g_cnt.transitions++;
    tr_add(fnv(pre, (size_t)(16 + total + tail), rc));
    if (g_verbose) { char h[200]; hex(h, msg, (size_t)(total < 90 ? total : 90)); printf("OBS C06 %s len=%d id=%x variant=%d -> %s rc=%lld\n", fn, len, id, variant, h, (long long)rc); }
    if (memcmp(pre, exp, (size_t)(16 + total + tail))) {
        const char* what = "header";
        if (memcmp(pre, exp, 16)) what = "bytes-before-message";
        else if (memcmp(msg + total, em + total, (size_t)tail)) what = "bytes-after-padded-message";
        else if (memcmp(msg + hdr + len, em + hdr + len, (size_t)pad)) what = "pad-bytes";
        else if (memcmp(msg + hdr, em + hdr, (size_t)len)) what = "payload";
        char h1[80], h2[80]; hex(h1, msg, (size_t)hdr); hex(h2, em, (size_t)hdr);
        snprintf(key, sizeof key, "%s %s len%%4=%d", fn, what, len % 4);
        violation("C06", key, cs, "len=%d id=0x%x variant=%d prior=%d: header=%s expected=%s", len, id, variant, prior, h1, h2);
        return;
    }
    if (brief && rc != (uint64_t)total) { snprintf(key, sizeof key, "%s return-value", fn); violation("C06", key, cs, "len=%d returned %lld, padded message is %d bytes", len, (long long)rc, total); }
    if (!brief) {
        volatile uint64_t pl = 0, po = 0;
        TRY_CALL({ pl = w_can_paylen(msg); po = w_can_payoff(msg); }, { pl = ~0ull; });
        g_cnt.transitions += 2;
        if (len <= 64 && pl != (uint64_t)len) { snprintf(key, sizeof key, "Avtp_Can_GetCanPayloadLength read-back"); violation("C06", key, cs, "built with %d payload bytes, read back %lld", len, (long long)pl); }
        if (po != 16) { snprintf(key, sizeof key, "Avtp_Can_GetPayload offset"); violation("C06", key, cs, "payload at header+%lld", (long long)po); }
    }
}

static void suite_c06(void)
{
    int maxlen_full = g_thorough ? 2028 : 64, maxlen_brief = g_thorough ? 2036 : 64;
    for (int packed = 0; packed < 2048; packed++) {
        int prior = (packed >> 6) & 7; if (prior > 5) continue;
        if ((packed >> 10) && ((packed & 1) || !((packed >> 1) & 1))) continue;       /* the in-place variant exists for the full format's step mode only */
        if (!my_unit()) continue;
        hs_reset();
        int brief = packed & 1;
        int maxlen = brief ? maxlen_brief : maxlen_full;
        /* the longest payloads the 9-bit length can express, also in the quick tier */
        if (!g_thorough && !g_lite && (packed >> 4) == 0) for (int len = (brief ? 2036 : 2028) - 12; len <= (brief ? 2036 : 2028); len++) for (int idi = 0; idi < 2; idi++) { g_src_shift = 0; c06_case(packed, len, idi); }
        for (int len = 0; len <= maxlen; len++) {
            if (g_lite && ((packed >> 4) & 3) > 1) break;
            if (len > 72 && (packed >> 4) != 0 && (len % 61) != 0 && !(g_thorough && ((packed >> 6) & 7) == 4)) continue;   /* long lengths: all of them for pattern 0/prior 0/fill 0 and (thorough) the initialised prior, a stride otherwise */
            for (int idi = 0; idi < C06_NIDS; idi++) {
                /* short payloads from caller buffers of every alignment */
                if (len <= 8 && idi < 2) for (g_src_shift = 1; g_src_shift < 4; g_src_shift++) c06_case(packed, len, idi);
                if (idi < 2 && !((packed >> 10) & 1)) { g_src_shift = 4; c06_case(packed, len, idi); }
                if (len == 0 && idi < 2) { g_src_shift = 5; c06_case(packed, len, idi); }
                if (len <= 8 && !(packed & 1) && !((packed >> 10) & 1)) { g_src_shift = 6; c06_case(packed, len, idi); }
                g_src_shift = 0;
                if (len > 72 && idi >= 8 && !(g_thorough && (idi & 7) == (len & 7))) { if (!g_thorough) break; else continue; }
                if (g_lite && idi >= 8 && (idi & 7) != (len & 7)) continue;
                c06_case(packed, len, idi);
            }
        }
    }
    sample("C06 Avtp_Can_CreateAcfMessage(id=0x800, 13 incrementing payload bytes, FD) into a header pre-set to all ones (type CAN), pad/trailing bytes A5, message buffer of exactly 16+16 bytes ending at a PROT_NONE page: whole image compared with ref_can_build, then GetCanPayloadLength/GetPayload");
    sample("C06 Avtp_CanBrief_SetPayload(id=0x1FFFFFFF, 64 bytes FF, classic) vs the separate steps copy; SetEff; SetCanIdentifier; SetFdf; Avtp_CanBrief_Finalize: same image, return value 72");
}

/* ======================================================================= */
/* C09                                                                      */
/* ======================================================================= */
static void c09_case(int len, int prior, int placement)
{
    int fmt = fmt_index("Vss");
    int pad = (4 - len % 4) % 4, total = len + pad;
    int tail = placement ? 64 : 0;
    uint8_t* msg = place_msg(&gA, total, &tail);
    uint8_t* pre = msg - 16;
    static uint8_t exp[16 + 2100 + 96];
    uint8_t pb = prior == 0 ? 0x00 : prior == 1 ? 0xFF : 0xA5;      /* priors 2 and 4: A5 */
    for (int i = 0; i < 16; i++) pre[i] = (uint8_t)(0x3C + i);
    memset(msg, pb, (size_t)(total + tail));
    if (prior == 3) for (int i = 0; i < total + tail; i++) msg[i] = (uint8_t)(i * 7 + 3);
    if (prior == 4) {   /* a header that already announces the final length and pad (a template copied in, or a second Pad) over dirty pad bytes */
        rset(msg, fld(fmt, "acf_msg_length"), (uint64_t)(total / 4));
        rset(msg, fld(fmt, "pad"), (uint64_t)pad);
    }
    memcpy(exp, pre, (size_t)(16 + total + tail));
    uint8_t* em = exp + 16;
    memset(em + len, 0, (size_t)pad);
    rset(em, fld(fmt, "acf_msg_length"), (uint64_t)(total / 4));
    rset(em, fld(fmt, "pad"), (uint64_t)pad);
    SETCS("C09", 0, len, prior, placement, 0, 0, 0);
    g_cnt.cases++; g_cnt.nontrivial++;
    hs_add(fnv(msg, 12, (uint64_t)len * 8 + (uint64_t)prior * 2 + (uint64_t)placement));
    char key[200];
    TRY_CALL(w_vss_pad(msg, (uint64_t)len), {
        long rel = (long)((intptr_t)g_fault_addr - (intptr_t)msg);
        snprintf(key, sizeof key, "Avtp_Vss_Pad fault len%%4=%d", len % 4);
        violation("C09", key, cs, "vss_length=%d: signal %d at message%+ld (padded message is %d bytes)", len, g_fault_sig, rel, total);
        return; });
    g_cnt.transitions++;
    tr_add(fnv(pre, (size_t)(16 + total + tail), 0));
    if (g_verbose) { char h[64]; hex(h, msg, 12); printf("OBS C09 len=%d -> header %s pad bytes:", len, h); for (int i = 0; i < pad; i++) printf(" %02x", msg[len + i]); printf("\n"); }
    if (memcmp(pre, exp, (size_t)(16 + total + tail))) {
        const char* what = "other-bytes-changed";
        if (memcmp(msg + len, em + len, (size_t)pad)) what = "pad-bytes-not-zeroed";
        else if (memcmp(msg, em, 4)) what = "length/pad-fields";
        char h1[30], h2[30]; hex(h1, msg, 12); hex(h2, em, 12);
        snprintf(key, sizeof key, "Avtp_Vss_Pad %s len%%4=%d", what, len % 4);
        violation("C09", key, cs, "vss_length=%d prior=%d: header=%s expected=%s", len, prior, h1, h2);
    }
}

static void suite_c09(void)
{
    for (int len = 12; len <= 2044; len++) {
        if (!my_unit()) continue;
        if (g_lite && len > 80 && len % 37 > 3) continue;
        for (int prior = 0; prior < 5; prior++) for (int placement = 0; placement < 2; placement++) c09_case(len, prior, placement);
    }
    /* the getters around Avtp_Vss_Pad inside one optimised caller: what they return afterwards is what the header now says */
    if (my_unit()) {
        int fmt = fmt_index("Vss");
        for (int len = 12; len <= 2044; len += (g_lite ? 37 : 1)) for (int prior = 0; prior < 2; prior++) {
            uint8_t buf[2048 + 16], out[8]; memset(buf, prior ? 0xFF : 0x00, sizeof buf);
            uint64_t l0 = rget(buf, fld(fmt, "acf_msg_length")), p0 = rget(buf, fld(fmt, "pad"));
            int pad = (4 - len % 4) % 4;
            SETCS("C09", 3, len, prior, 0, 0, 0, 0);
            g_cnt.cases++; g_cnt.nontrivial++;
            int faulted = 0;
            TRY_CALL(w_vss_pad_getters(buf, (uint64_t)len, out), { faulted = 1; });
            g_cnt.transitions++;
            uint64_t g0 = ((uint64_t)out[0] << 8) | out[1], q0 = ((uint64_t)out[2] << 8) | out[3], g1 = ((uint64_t)out[4] << 8) | out[5], q1 = ((uint64_t)out[6] << 8) | out[7];
            if (faulted || g0 != l0 || q0 != p0 || g1 != (uint64_t)((len + pad) / 4) || q1 != (uint64_t)pad)
                violation("C09", "getters around Avtp_Vss_Pad in one caller", cs, "vss_length=%d: before %llu/%llu (header says %llu/%llu), after %llu/%llu (header says %d/%d)", len, (unsigned long long)g0, (unsigned long long)q0, (unsigned long long)l0, (unsigned long long)p0, (unsigned long long)g1, (unsigned long long)q1, (len + pad) / 4, pad);
        }
    }
    /* the dedicated length accessors carry every 9-bit value */
    if (my_unit()) {
        int fmt = fmt_index("Vss"); const RowField* L = fld(fmt, "acf_msg_length");
        int li = (int)(L - g_fmts[fmt].f);
        for (int bgi = 0; bgi < 4; bgi++) for (uint64_t v = 0; v < 512; v++) {
            uint8_t a[12], b[12]; memset(a, BG[bgi], 12); memset(b, BG[bgi], 12);
            SETCS("C09", 1, (long long)v, bgi, 0, 0, 0, 0);
            volatile uint64_t g1 = 0, g2 = 0;
            TRY_CALL({ w_set((uint64_t)fmt, (uint64_t)li, 1, a, v); w_set((uint64_t)fmt, (uint64_t)li, 0, b, v); g1 = w_get((uint64_t)fmt, (uint64_t)li, 1, a); g2 = w_get((uint64_t)fmt, (uint64_t)li, 0, a); }, { g1 = ~0ull; });
            g_cnt.cases++; g_cnt.transitions += 4;
            if (memcmp(a, b, 12) || g1 != v || g2 != v) violation("C09", "VSS length accessors 9-bit", cs, "v=%llu dedicated read %llu generic read %llu", (unsigned long long)v, (unsigned long long)g1, (unsigned long long)g2);
        }
    }
    /* ... also as the second of two writes: every ordered pair of values, every pair of write paths (a buffer is reused) */
    {
        int fmt = fmt_index("Vss"); const RowField* L = fld(fmt, "acf_msg_length");
        int li = (int)(L - g_fmts[fmt].f);
        for (uint64_t v1 = 0; v1 < 512; v1++) {
            if (!my_unit()) continue;
            if (g_lite && v1 % 17 > 1 && v1 != 255 && v1 != 256 && v1 != 511) continue;
            for (uint64_t v2 = 0; v2 < 512; v2++) for (int pp = 0; pp < 4; pp++) {
                uint8_t a[12], e[12]; memset(a, 0, 12); memset(e, 0, 12);
                SETCS("C09", 2, (long long)v1, (long long)v2, pp, 0, 0, 0);
                rset(e, L, v1); rset(e, L, v2);
                volatile uint64_t g1 = 0;
                TRY_CALL({ w_set((uint64_t)fmt, (uint64_t)li, (uint64_t)(pp & 1), a, v1); w_set((uint64_t)fmt, (uint64_t)li, (uint64_t)(pp >> 1), a, v2); g1 = w_get((uint64_t)fmt, (uint64_t)li, 1, a); }, { g1 = ~0ull; });
                g_cnt.cases++; g_cnt.transitions += 3; g_cnt.nontrivial++;
                if (memcmp(a, e, 12) || g1 != v2) violation("C09", "VSS length accessors: second write to a reused header", cs, "wrote %llu then %llu (%s then %s): read %llu", (unsigned long long)v1, (unsigned long long)v2, pp & 1 ? "dedicated" : "by-id", pp >> 1 ? "dedicated" : "by-id", (unsigned long long)g1);
            }
        }
    }
    sample("C09 Avtp_Vss_Pad(pdu, 1033) on a message of exactly 1036 bytes pre-filled with FF ending at a PROT_NONE page: acf_msg_length must become 259, pad 3, bytes 1033..1035 zero, everything else unchanged");
}

/* ======================================================================= */
/* C13: byte-order helpers                                                   */
/* ======================================================================= */
static const char* BO_NAME[15] = {"Bswap16", "Bswap32", "Bswap64", "CpuToLe16", "CpuToLe32", "CpuToLe64", "CpuToBe16", "CpuToBe32", "CpuToBe64",
                                  "LeToCpu16", "LeToCpu32", "LeToCpu64", "BeToCpu16", "BeToCpu32", "BeToCpu64"};
static int bo_bytes(int h) { return 2 << (h % 3); }
static int g_world_big;          /* host order of the world under test (probed) */

static void c13_value(int h, uint64_t x)
{
    int n = bo_bytes(h);
    uint64_t m = n == 8 ? ~0ull : ((1ull << (8 * n)) - 1);
    x &= m;
    uint8_t img[8] = {0}, want[8];
    SETCS("C13", 0, h, 0, 0, 0, 0, (long long)x);
    volatile uint64_t r = 0;
    g_cnt.cases++; if (x) g_cnt.nontrivial++;
    hs_add(fnv(&x, 8, (uint64_t)h + 1));
    TRY_CALL(r = w_bo((uint64_t)h, x, img), { violation("C13", BO_NAME[h], cs, "fault"); return; });
    g_cnt.transitions++;
    tr_add(r);
    char key[64];
    int kind = h / 3;   /* 0 swap, 1 cpu->le, 2 cpu->be, 3 le->cpu, 4 be->cpu */
    if (kind == 1 || kind == 2) {
        /* memory image of the result is the LE / BE byte sequence of x */
        for (int i = 0; i < n; i++) want[i] = kind == 2 ? (uint8_t)(x >> (8 * (n - 1 - i))) : (uint8_t)(x >> (8 * i));
        if (memcmp(img, want, (size_t)n)) { char h1[20], h2[20]; hex(h1, img, (size_t)n); hex(h2, want, (size_t)n); snprintf(key, sizeof key, "%s image", BO_NAME[h]);
            violation("C13", key, cs, "x=0x%llx image=%s expected=%s", (unsigned long long)x, h1, h2); }
        /* to-host inverts */
        uint8_t tmp[8]; volatile uint64_t back = 0;
        TRY_CALL(back = w_bo((uint64_t)(h + 6), r, tmp), { back = ~x; });
        g_cnt.transitions++;
        if (back != x) { snprintf(key, sizeof key, "%s round-trip", BO_NAME[h + 6]); violation("C13", key, cs, "x=0x%llx -> 0x%llx -> 0x%llx", (unsigned long long)x, (unsigned long long)r, (unsigned long long)back); }
    } else if (kind == 0) {
        uint64_t rev = 0; for (int i = 0; i < n; i++) rev |= ((x >> (8 * i)) & 0xFF) << (8 * (n - 1 - i));
        if (r != rev) { snprintf(key, sizeof key, "%s value", BO_NAME[h]); violation("C13", key, cs, "x=0x%llx -> 0x%llx expected 0x%llx", (unsigned long long)x, (unsigned long long)r, (unsigned long long)rev); }
        uint8_t tmp[8]; volatile uint64_t back = 0;
        TRY_CALL(back = w_bo((uint64_t)h, r, tmp), { back = ~x; });
        g_cnt.transitions++;
        if (back != x) { snprintf(key, sizeof key, "%s involution", BO_NAME[h]); violation("C13", key, cs, "x=0x%llx", (unsigned long long)x); }
    } else {
        /* to-host: interpreting the LE/BE byte sequence x's object holds. The object's image in this world: */
        uint64_t exp;
        int src_big = (kind == 4);
        if (src_big == g_world_big) exp = x; else { exp = 0; for (int i = 0; i < n; i++) exp |= ((x >> (8 * i)) & 0xFF) << (8 * (n - 1 - i)); }
        if (r != exp) { snprintf(key, sizeof key, "%s value", BO_NAME[h]); violation("C13", key, cs, "x=0x%llx -> 0x%llx expected 0x%llx", (unsigned long long)x, (unsigned long long)r, (unsigned long long)exp); }
    }
    /* a compiler that does not predefine __BYTE_ORDER__: on a little-endian host the helpers must still be the host's */
    if (w_bo3 && !g_world_big) {
        uint8_t t3[8] = {0}; volatile uint64_t r3 = 0;
        TRY_CALL(r3 = w_bo3((uint64_t)h, x, t3), { r3 = ~r; });
        g_cnt.transitions++;
        if (r3 != r || memcmp(t3, img, (size_t)n)) { snprintf(key, sizeof key, "%s without predefined byte-order macros", BO_NAME[h]); violation("C13", key, cs, "x=0x%llx: compiled without __BYTE_ORDER__ gives 0x%llx, with it 0x%llx", (unsigned long long)x, (unsigned long long)r3, (unsigned long long)r); }
    }
    /* the same helpers as compiled by a Microsoft-flavoured compiler (branches behind _MSC_VER) */
    if (w_bo5) {
        uint8_t t5[8] = {0}; volatile uint64_t r5 = 0;
        TRY_CALL(r5 = w_bo5((uint64_t)h, x, t5), { r5 = ~r; });
        g_cnt.transitions++;
        if (r5 != r || memcmp(t5, img, (size_t)n)) { snprintf(key, sizeof key, "%s with _MSC_VER defined", BO_NAME[h]); violation("C13", key, cs, "x=0x%llx: 0x%llx, otherwise 0x%llx", (unsigned long long)x, (unsigned long long)r5, (unsigned long long)r); }
    }
    /* the same helpers in a translation unit that included the system's own byte-order headers first */
    if (w_bo4) {
        uint8_t t4[8] = {0}; volatile uint64_t r4 = 0;
        TRY_CALL(r4 = w_bo4((uint64_t)h, x, t4), { r4 = ~r; });
        g_cnt.transitions++;
        if (r4 != r || memcmp(t4, img, (size_t)n)) { snprintf(key, sizeof key, "%s after the system byte-order headers", BO_NAME[h]); violation("C13", key, cs, "x=0x%llx: in a unit that includes <byteswap.h>/<endian.h>/<arpa/inet.h> first 0x%llx, otherwise 0x%llx", (unsigned long long)x, (unsigned long long)r4, (unsigned long long)r); }
    }
    /* mirror images: the helper set of the other host-order branch (w_bo2) is this set with Le/Be exchanged */
    {
        int mh = kind == 0 ? h : (kind == 1 || kind == 3) ? h + 3 : h - 3;
        uint8_t t1[8], t2[8]; volatile uint64_t r2 = 0, rm = 0;
        TRY_CALL({ r2 = w_bo2((uint64_t)h, x, t1); rm = w_bo((uint64_t)mh, x, t2); }, { r2 = ~rm; });
        g_cnt.transitions += 2;
        if (r2 != rm) { snprintf(key, sizeof key, "%s other-branch-not-mirror", BO_NAME[h]); violation("C13", key, cs, "x=0x%llx: other branch %s gives 0x%llx, this branch %s gives 0x%llx", (unsigned long long)x, BO_NAME[h], (unsigned long long)r2, BO_NAME[mh], (unsigned long long)rm); }
    }
}

static void c13_lattice(int h)
{
    int n = bo_bytes(h);
    if (n == 2) { for (uint64_t x = 0; x < 65536; x++) c13_value(h, x); return; }
    int bits = 8 * n;
    uint64_t m = n == 8 ? ~0ull : 0xFFFFFFFFull;
    c13_value(h, 0); c13_value(h, m);
    for (int i = 0; i < bits; i++) { c13_value(h, 1ull << i); c13_value(h, m ^ (1ull << i)); }
    for (int i = 0; i < bits; i++) for (int j = i + 1; j < bits; j++) c13_value(h, (1ull << i) | (1ull << j));
    /* every ordered pair of byte positions with all 2^16 contents on three backgrounds */
    static const uint64_t bgs[3] = {0, ~0ull, 0xA55AA55AA55AA55Aull};
    for (int b = 0; b < 3; b++) for (int p = 0; p < n; p++) for (int q = 0; q < n; q++) {
        if (p == q) continue;
        for (uint64_t c = 0; c < 65536; c++) {
            uint64_t x = bgs[b] & m;
            x &= ~(0xFFull << (8 * p)); x &= ~(0xFFull << (8 * q));
            x |= (c & 0xFF) << (8 * p); x |= (c >> 8) << (8 * q);
            c13_value(h, x);
        }
    }
}

/* literal arguments: the result for the constant must equal the result for the same value passed at run time (which
 * c13_value checks against the reference) */
static void c13_constants(void)
{
    int nk = (int)w_boc(99, 0, NULL);
    for (int h = 0; h < 15; h++) for (int k = 0; k < nk; k++) {
        int n = bo_bytes(h);
        uint64_t m = n == 8 ? ~0ull : ((1ull << (8 * n)) - 1);
        uint64_t x = w_boc(98, (uint64_t)k, NULL) & m;
        uint8_t ic[8] = {0}, ir[8] = {0}; volatile uint64_t rc = 0, rr = 0;
        SETCS("C13", 2, h, k, 0, 0, 0, (long long)x);
        g_cnt.cases++; g_cnt.nontrivial++;
        TRY_CALL({ rc = w_boc((uint64_t)h, (uint64_t)k, ic); rr = w_bo((uint64_t)h, x, ir); }, { rc = ~rr; });
        g_cnt.transitions += 2;
        tr_add(rc);
        if (rc != rr || memcmp(ic, ir, (size_t)n)) { char key[96]; snprintf(key, sizeof key, "%s with a literal argument", BO_NAME[h]); violation("C13", key, cs, "x=0x%llx: literal argument gives 0x%llx, run-time argument 0x%llx", (unsigned long long)x, (unsigned long long)rc, (unsigned long long)rr); }
        c13_value(h, x);
        if (w_bo4c) {
            uint8_t i4[8] = {0}; volatile uint64_t r4 = 0;
            TRY_CALL(r4 = w_bo4c((uint64_t)h, (uint64_t)k, i4), { r4 = ~rr; });
            if (r4 != rr || memcmp(i4, ir, (size_t)n)) { char key[96]; snprintf(key, sizeof key, "%s with a literal argument after the system byte-order headers", BO_NAME[h]); violation("C13", key, cs, "x=0x%llx: 0x%llx, expected 0x%llx", (unsigned long long)x, (unsigned long long)r4, (unsigned long long)rr); }
        }
    }
}

static void suite_c13(void)
{
    uint8_t img[8];
    w_bo(7, 0x01020304, img);          /* CpuToBe32 must give 01 02 03 04 in any world; the probe below finds the world's own order */
    g_world_big = (int)w_world_id();
    if (my_unit()) c13_constants();
    for (int h = 0; h < 15; h++) {
        if (bo_bytes(h) == 4 && g_thorough) {
            /* all 2^32 values, split over the slices */
            uint64_t lo = ((uint64_t)g_slice << 32) / (uint64_t)g_nslices, hi = ((uint64_t)(g_slice + 1) << 32) / (uint64_t)g_nslices;
            for (uint64_t x = lo; x < hi; x++) c13_value(h, x);
            continue;
        }
        if (!my_unit()) continue;
        c13_lattice(h);
    }
    sample("C13 Avtp_CpuToBe64(0x0102030405060708): the result object's memory image must be 01 02 03 04 05 06 07 08; Avtp_BeToCpu64 of it returns the value; Avtp_Bswap64 twice is the identity");
}
#include "explore_ser2.inc"

/* the thunks give every argument expression of a library call a side effect; an entry point that evaluates one twice
 * (a function turned into a macro) is reported once per run */
static void check_arg_evaluation(const char* suite)
{
    if (!w_ev_mismatches()) return;
    uint8_t nm[96]; w_ev_last(nm, sizeof nm);
    char key[160]; snprintf(key, sizeof key, "%s evaluates an argument expression more or less than once", (char*)nm);
    violation(suite, key, "", "%llu calls; the call site passes expressions with side effects, e.g. f(*p++)", (unsigned long long)w_ev_mismatches());
}

int main(int argc, char** argv)
{
    const char* suite = "", *csarg = NULL;
    for (int i = 1; i < argc; i++) {
        if (!strcmp(argv[i], "--callmode")) { w_set_callmode((uint64_t)atoi(argv[++i])); continue; }
        if (!strcmp(argv[i], "--worldinfo")) { printf("model=%llu big=%llu\n", (unsigned long long)w_world_model(), (unsigned long long)w_world_id()); return 0; }
        if (!strcmp(argv[i], "--suite")) suite = argv[++i];
        else if (!strcmp(argv[i], "--tier")) { i++; g_thorough = !strcmp(argv[i], "thorough"); g_lite = !strcmp(argv[i], "lite"); }
        else if (!strcmp(argv[i], "--off")) g_off = atoi(argv[++i]) & 15;
        else if (!strcmp(argv[i], "--slice")) sscanf(argv[++i], "%d/%d", &g_slice, &g_nslices);
        else if (!strcmp(argv[i], "--case")) csarg = argv[++i];
        else if (!strcmp(argv[i], "--plant")) g_plant = 1;
    }
    setvbuf(stdout, NULL, _IOFBF, 1 << 16);
    fault_install();
    guarded_alloc(&gA, 48); guarded_alloc(&gB, 40); guarded_alloc(&gC, 40);
    if (g_plant) { g_max_per_key = 0; for (int len = 0; len <= 16; len++) c06_case(0, len, 3); emit_counters("PLANT"); return 0; }
    if (csarg) {
        g_verbose = 1;
        char buf[256], su[8]; long long p[8] = {0};
        strncpy(buf, csarg, sizeof buf - 1); buf[sizeof buf - 1] = 0;
        char* tok = strtok(buf, ":"); strncpy(su, tok, 7); su[7] = 0;
        for (int k = 0; k < 8 && (tok = strtok(NULL, ":")); k++) p[k] = k == 6 ? (long long)strtoull(tok, NULL, 16) : atoll(tok);
        if (!strcmp(su, "C06")) { g_src_shift = (int)p[4]; c06_case((int)p[1], (int)p[2], (int)p[3]); }
        else if (!strcmp(su, "C09")) { if (p[0] == 0) c09_case((int)p[1], (int)p[2], (int)p[3]); else { g_unit = 0; g_nslices = 1; suite_c09(); } }
        else if (!strcmp(su, "C13")) { g_world_big = (int)w_world_id(); if (p[0] == 2) c13_constants(); else c13_value((int)p[1], (uint64_t)p[6]); }
        else replay_ser2(su, p);
        emit_counters(su);
        return g_cnt.violations ? 1 : 0;
    }
    if (!strcmp(suite, "C06")) suite_c06();
    else if (!strcmp(suite, "C09")) suite_c09();
    else if (!strcmp(suite, "C13")) suite_c13();
    else if (!run_ser2(suite)) { fprintf(stderr, "unknown suite %s\n", suite); return 2; }
    check_arg_evaluation(suite);
    emit_counters(suite);
    return 0;
}
