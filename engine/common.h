/* Shared native machinery of the explorers: bit-addressed reference model,
 * guarded memory, fault capture, state hashing, violation reporting.
 * Native code only - never compiled inside a "world". */
#pragma once
#define _GNU_SOURCE
#include <stdint.h>
#include <stddef.h>
#include <stdio.h>
#include <stdlib.h>
#include <string.h>
#include <setjmp.h>
#include <signal.h>
#include <unistd.h>
#include <sys/mman.h>

/* ---- reference model: one bit at a time, MSB first, byte addressed ---- */
static inline int ref_bit(const uint8_t* b, unsigned k) { return (b[k >> 3] >> (7 - (k & 7))) & 1; }
static inline uint64_t ref_get(const uint8_t* b, unsigned off, unsigned w)
{
    uint64_t v = 0;
    for (unsigned i = 0; i < w; i++) v = (v << 1) | (uint64_t)ref_bit(b, off + i);
    return v;
}
static inline void ref_set(uint8_t* b, unsigned off, unsigned w, uint64_t v)
{
    for (unsigned i = 0; i < w; i++) {
        unsigned k = off + i;
        int bit = (int)((v >> (w - 1 - i)) & 1);
        uint8_t m = (uint8_t)(1u << (7 - (k & 7)));
        if (bit) b[k >> 3] |= m; else b[k >> 3] &= (uint8_t)~m;
    }
}
static inline uint64_t mask_w(unsigned w) { return w >= 64 ? ~0ull : ((1ull << w) - 1); }
static inline void flip_bit(uint8_t* b, unsigned k) { b[k >> 3] ^= (uint8_t)(1u << (7 - (k & 7))); }

static const uint8_t BG[4] = {0x00, 0xFF, 0xA5, 0x5A};

/* ---- counters ---- */
typedef struct {
    uint64_t transitions;   /* real library calls executed and compared */
    uint64_t cases;         /* enumerated cases */
    uint64_t states;        /* distinct pre-states (hashed) */
    uint64_t states_unhashed;
    uint64_t violations;
    uint64_t faults;
    uint64_t nontrivial;    /* cases whose expected outcome is not the all-zero/identity one */
} Counters;
extern Counters g_cnt;

/* ---- state hash set (per unit, reset by the explorer) ---- */
void hs_reset(void);
void hs_add(uint64_t h);       /* counts distinct inserts into g_cnt.states */
static inline uint64_t fnv(const void* p, size_t n, uint64_t h)
{
    const uint8_t* b = (const uint8_t*)p;
    if (!h) h = 1469598103934665603ull;
    for (size_t i = 0; i < n; i++) { h ^= b[i]; h *= 1099511628211ull; }
    return h;
}

/* ---- transcript hash: order dependent digest of every observation ---- */
extern uint64_t g_transcript;
static inline void tr_add(uint64_t v) { g_transcript = (g_transcript ^ v) * 1099511628211ull + 0x9e3779b97f4a7c15ull; }

/* ---- guarded memory ---- */
typedef struct { uint8_t* base; size_t pages; uint8_t* lo; uint8_t* hi; } Guarded;
/* region of `pages` RW pages between two PROT_NONE pages; lo = first RW byte, hi = one past the last */
void guarded_alloc(Guarded* g, size_t pages);
void guarded_free(Guarded* g);

/* ---- fault capture ---- */
extern sigjmp_buf g_fault_env;
extern volatile sig_atomic_t g_fault_armed;
extern volatile uintptr_t g_fault_addr;
extern volatile int g_fault_sig;
void fault_install(void);
#define TRY_CALL(stmt, onfault) do { \
        g_fault_armed = 1; \
        if (sigsetjmp(g_fault_env, 0) == 0) { stmt; g_fault_armed = 0; } \
        else { g_fault_armed = 0; g_cnt.faults++; onfault; } } while (0)

/* ---- violations ---- */
/* key: stable name of the failing thing; detail: free text; replay: the --case string */
void violation(const char* prop, const char* key, const char* replay_case, const char* fmt, ...)
    __attribute__((format(printf, 4, 5)));
extern int g_verbose;          /* set by --case: print observations */
extern int g_max_per_key;

/* ---- samples for the evidence file ---- */
void sample(const char* fmt, ...) __attribute__((format(printf, 1, 2)));

/* lazy replay-case strings: hot loops record the case parameters, the string is only built on a violation */
extern const char* g_cs_suite; extern long long g_cs_p[7];
static inline void cs_set(char* cs, const char* suite, long long sub, long long a, long long b, long long c, long long d, long long e, long long f)
{ cs[0] = 0; g_cs_suite = suite; g_cs_p[0] = sub; g_cs_p[1] = a; g_cs_p[2] = b; g_cs_p[3] = c; g_cs_p[4] = d; g_cs_p[5] = e; g_cs_p[6] = f; }
#define SETCS(...) cs_set(cs, __VA_ARGS__)
void hex(char* out, const uint8_t* b, size_t n);
void emit_counters(const char* suite);
