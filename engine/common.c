#include "common.h"
#include <stdarg.h>
#include <ucontext.h>

Counters g_cnt;
uint64_t g_transcript = 0x1234;
int g_verbose = 0;
int g_max_per_key = 2;

/* ---------------- hash set ---------------- */
#define HS_CAP (1u << 21)
static uint64_t* hs_tab;
static uint32_t hs_used;
static uint32_t* hs_touched;   /* indices used, for cheap reset */

void hs_reset(void)
{
    if (!hs_tab) {
        hs_tab = calloc(HS_CAP, sizeof *hs_tab);
        hs_touched = malloc((HS_CAP / 2) * sizeof *hs_touched);
    }
    for (uint32_t i = 0; i < hs_used; i++) hs_tab[hs_touched[i]] = 0;
    hs_used = 0;
}

void hs_add(uint64_t h)
{
    if (!hs_tab) hs_reset();
    if (h == 0) h = 1;
    if (hs_used >= HS_CAP / 2) { g_cnt.states_unhashed++; return; }
    uint32_t i = (uint32_t)(h ^ (h >> 29)) & (HS_CAP - 1);
    while (hs_tab[i]) {
        if (hs_tab[i] == h) return;
        i = (i + 1) & (HS_CAP - 1);
    }
    hs_tab[i] = h;
    hs_touched[hs_used++] = i;
    g_cnt.states++;
}

/* ---------------- guarded memory ---------------- */
/* the inaccessible zones are wide (1 MiB below, 64 MiB above, address space only) so that a stray
 * access with a large wrong offset still faults instead of landing in some other mapping of the checker */
#define GUARD_LO_PAGES 256
#define GUARD_HI_PAGES 16384
void guarded_alloc(Guarded* g, size_t pages)
{
    size_t ps = (size_t)sysconf(_SC_PAGESIZE);
    uint8_t* p = mmap(NULL, (pages + GUARD_LO_PAGES + GUARD_HI_PAGES) * ps, PROT_NONE, MAP_PRIVATE | MAP_ANONYMOUS | MAP_NORESERVE, -1, 0);
    if (p == MAP_FAILED) { perror("mmap"); exit(2); }
    if (mprotect(p + GUARD_LO_PAGES * ps, pages * ps, PROT_READ | PROT_WRITE)) { perror("mprotect"); exit(2); }
    g->base = p; g->pages = pages; g->lo = p + GUARD_LO_PAGES * ps; g->hi = g->lo + pages * ps;
}

void guarded_free(Guarded* g)
{
    size_t ps = (size_t)sysconf(_SC_PAGESIZE);
    munmap(g->base, (g->pages + GUARD_LO_PAGES + GUARD_HI_PAGES) * ps);
}

/* ---------------- faults ---------------- */
sigjmp_buf g_fault_env;
volatile sig_atomic_t g_fault_armed;
volatile uintptr_t g_fault_addr;
volatile int g_fault_sig;

static void on_fault(int sig, siginfo_t* si, void* uc)
{
    (void)uc;
    if (!g_fault_armed) {
        /* a fault of the harness itself: do not mask it */
        signal(sig, SIG_DFL);
        raise(sig);
        return;
    }
    g_fault_addr = (uintptr_t)si->si_addr;
    g_fault_sig = sig;
    siglongjmp(g_fault_env, 1);
}

/* watchdog: a call into the code under test that does not return. A periodic timer looks at the progress counters; if a
 * guarded call is in flight and nothing has moved for two ticks, the call is abandoned like a faulting one (signal 14). */
#include <sys/time.h>
static void on_tick(int sig)
{
    static uint64_t last; static int stale;
    (void)sig;
    uint64_t now = g_cnt.transitions + g_cnt.cases + g_cnt.faults;
    if (g_fault_armed && now == last) {
        if (++stale >= 2) { stale = 0; g_fault_addr = 0; g_fault_sig = SIGALRM; siglongjmp(g_fault_env, 1); }
    } else { stale = 0; last = now; }
}

void fault_install(void)
{
    static uint8_t altstack[1 << 16];
    stack_t ss = { .ss_sp = altstack, .ss_size = sizeof altstack, .ss_flags = 0 };
    sigaltstack(&ss, NULL);
    struct sigaction sa;
    memset(&sa, 0, sizeof sa);
    sa.sa_sigaction = on_fault;
    sa.sa_flags = SA_SIGINFO | SA_ONSTACK | SA_NODEFER;
    sigemptyset(&sa.sa_mask);
    sigaction(SIGSEGV, &sa, NULL);
    sigaction(SIGBUS, &sa, NULL);
    sigaction(SIGFPE, &sa, NULL);
    sigaction(SIGILL, &sa, NULL);
    sigaction(SIGABRT, &sa, NULL);
    struct sigaction st;
    memset(&st, 0, sizeof st);
    st.sa_handler = on_tick;
    st.sa_flags = SA_ONSTACK | SA_NODEFER;
    sigemptyset(&st.sa_mask);
    sigaction(SIGALRM, &st, NULL);
    struct itimerval it = { {4, 0}, {4, 0} };
    setitimer(ITIMER_REAL, &it, NULL);
}

/* ---------------- reporting ---------------- */
typedef struct { char* key; uint64_t n; } KeyCount;
static KeyCount* keys;
static size_t nkeys;

const char* g_cs_suite = ""; long long g_cs_p[7];
void violation(const char* prop, const char* key, const char* replay_case, const char* fmt, ...)
{
    char lazy[200];
    if (replay_case && !replay_case[0]) {
        snprintf(lazy, sizeof lazy, "%s:%lld:%lld:%lld:%lld:%lld:%lld:%llx", g_cs_suite, g_cs_p[0], g_cs_p[1], g_cs_p[2], g_cs_p[3], g_cs_p[4], g_cs_p[5], (unsigned long long)g_cs_p[6]);
        replay_case = lazy;
    }
    g_cnt.violations++;
    /* a call that had to be abandoned by the watchdog costs seconds: after the third one this process reports what it has and stops */
    static int hangs;
    int stop_after = (g_fault_sig == SIGALRM && ++hangs >= 3);
    size_t i;
    char full[512];
    snprintf(full, sizeof full, "%s\t%s", prop, key);
    for (i = 0; i < nkeys; i++) if (!strcmp(keys[i].key, full)) break;
    if (i == nkeys) {
        keys = realloc(keys, (nkeys + 1) * sizeof *keys);
        keys[nkeys].key = strdup(full);
        keys[nkeys].n = 0;
        nkeys++;
    }
    keys[i].n++;
    if (keys[i].n > (uint64_t)g_max_per_key && !g_verbose) {
        if (stop_after) { printf("S\tstopped early: three calls into the code under test did not return within the watchdog period\n"); emit_counters(prop); fflush(stdout); _exit(0); }
        return;
    }
    char detail[1024];
    va_list ap;
    va_start(ap, fmt);
    vsnprintf(detail, sizeof detail, fmt, ap);
    va_end(ap);
    for (char* c = detail; *c; c++) if (*c == '\t' || *c == '\n') *c = ' ';
    printf("V\t%s\t%s\t%s\t%s\n", prop, key, replay_case ? replay_case : "", detail);
    if (stop_after) { printf("S\tstopped early: three calls into the code under test did not return within the watchdog period\n"); emit_counters(prop); fflush(stdout); _exit(0); }
    fflush(stdout);
}

static int nsamples;
void sample(const char* fmt, ...)
{
    if (nsamples >= 6) return;
    nsamples++;
    char s[1024];
    va_list ap;
    va_start(ap, fmt);
    vsnprintf(s, sizeof s, fmt, ap);
    va_end(ap);
    for (char* c = s; *c; c++) if (*c == '\t' || *c == '\n') *c = ' ';
    printf("S\t%s\n", s);
}

void hex(char* out, const uint8_t* b, size_t n)
{
    static const char d[] = "0123456789abcdef";
    for (size_t i = 0; i < n; i++) { out[2 * i] = d[b[i] >> 4]; out[2 * i + 1] = d[b[i] & 15]; }
    out[2 * n] = 0;
}

void emit_counters(const char* suite)
{
    for (size_t i = 0; i < nkeys; i++) printf("VC\t%s\t%llu\n", keys[i].key, (unsigned long long)keys[i].n);
    printf("C\t%s\t{\"transitions\":%llu,\"cases\":%llu,\"states\":%llu,\"states_unhashed\":%llu,"
           "\"violations\":%llu,\"faults\":%llu,\"nontrivial\":%llu,\"transcript\":\"%016llx\"}\n",
           suite,
           (unsigned long long)g_cnt.transitions, (unsigned long long)g_cnt.cases,
           (unsigned long long)g_cnt.states, (unsigned long long)g_cnt.states_unhashed,
           (unsigned long long)g_cnt.violations, (unsigned long long)g_cnt.faults,
           (unsigned long long)g_cnt.nontrivial, (unsigned long long)g_transcript);
    fflush(stdout);
}
