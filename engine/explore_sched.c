/* E3: schedule explorer for C16.
 *
 * The library is compiled with -fsanitize=thread, but linked against THIS
 * runtime instead of libtsan: every load/store the library executes calls one
 * of the __tsan_* hooks below with the address.
 *
 *  mode OWN   (i)  each public function is run once; every hooked access is
 *                  classified: caller's stack / an object the harness passed /
 *                  read-only image segment / anything else (= violation).
 *  mode SCHED (ii) threads are ucontext coroutines; every hooked access to
 *                  memory that is neither the running thread's stack nor a
 *                  read-only segment is a scheduling point. All schedules up
 *                  to a preemption bound are explored (iterative context
 *                  bounding); per-thread results and final buffers must equal
 *                  the sequential reference on every schedule.
 * Native, uninstrumented code: this file and the world thunks. */
#define _GNU_SOURCE
#include "common.h"
#include "../world/world.h"
#include "../world/world_ser.h"
#include "rows_gen.h"
#include <ucontext.h>
#include <link.h>
#include <pthread.h>

/* ------------------------------------------------------------------ */
enum { MODE_OFF, MODE_OWN, MODE_SCHED, MODE_EXT };
static uintptr_t g_ext_lo, g_ext_hi;      /* MODE_EXT: the exact header the current call was given */
static const char* g_prop = "C16";
static int g_mode = MODE_OFF;
static uint64_t g_hooks;                 /* hooked accesses seen */

/* read-only / writable image segments */
typedef struct { uintptr_t lo, hi; int writable; } Seg;
static Seg g_segs[256]; static int g_nsegs;
static int phdr_cb(struct dl_phdr_info* info, size_t size, void* data)
{
    (void)size; (void)data;
    for (int i = 0; i < info->dlpi_phnum; i++) {
        const ElfW(Phdr)* ph = &info->dlpi_phdr[i];
        if (ph->p_type == PT_LOAD && g_nsegs < 250) {
            g_segs[g_nsegs].lo = info->dlpi_addr + ph->p_vaddr;
            g_segs[g_nsegs].hi = g_segs[g_nsegs].lo + ph->p_memsz;
            g_segs[g_nsegs].writable = (ph->p_flags & PF_W) != 0;
            g_nsegs++;
        }
    }
    for (int i = 0; i < info->dlpi_phnum; i++) {
        const ElfW(Phdr)* ph = &info->dlpi_phdr[i];
        if (ph->p_type == PT_GNU_RELRO && g_nsegs < 255) {   /* read-only after relocation: listed first-match below */
            g_segs[g_nsegs].lo = info->dlpi_addr + ph->p_vaddr;
            g_segs[g_nsegs].hi = g_segs[g_nsegs].lo + ph->p_memsz;
            g_segs[g_nsegs].writable = 2;
            g_nsegs++;
        }
    }
    return 0;
}
/* 0 not in an image, 1 read-only, 2 writable */
static int seg_class(uintptr_t a)
{
    int cls = 0;
    for (int i = 0; i < g_nsegs; i++) if (a >= g_segs[i].lo && a < g_segs[i].hi) {
        if (g_segs[i].writable == 2) return 1;
        cls = g_segs[i].writable ? 2 : 1;
    }
    return cls;
}

/* objects passed to the library: one arena */
static uint8_t* g_arena; static size_t g_arena_size;
static int in_arena(uintptr_t a) { return a >= (uintptr_t)g_arena && a < (uintptr_t)g_arena + g_arena_size; }

/* stacks */
static uintptr_t g_mainstack_lo, g_mainstack_hi;
#define MAXT 3
#define STACKSZ (256 * 1024)
typedef struct { ucontext_t ctx; uint8_t* stack; int done; int started; } Thr;
static Thr g_thr[MAXT];
static int g_nthr, g_cur = -1;
static ucontext_t g_main;
static int on_stack(uintptr_t a)
{
    if (g_cur >= 0) return a >= (uintptr_t)g_thr[g_cur].stack && a < (uintptr_t)g_thr[g_cur].stack + STACKSZ;
    return a >= g_mainstack_lo && a < g_mainstack_hi;
}

/* ownership findings */
typedef struct { uintptr_t addr; int write; int cls; const char* fn; } OwnHit;
static OwnHit g_ownhits[2048]; static int g_nown;
static const char* g_own_fn = "";
static uintptr_t g_ro_lo, g_ro_hi;     /* an object passed to a reading operation: the library must not write it */
static uint64_t g_own_checked;

static void sched_yield_point(void);

static void vt_access(const void* p, size_t n, int is_write)
{
    if (g_mode == MODE_OFF || n == 0) return;
    uintptr_t a = (uintptr_t)p;
    g_hooks++;
    if (g_mode == MODE_EXT) {
        g_own_checked++;
        if (on_stack(a)) return;
        if (a >= g_ext_lo && a + n <= g_ext_hi) return;
        if (!is_write && seg_class(a) == 1 && seg_class(a + n - 1) == 1) return;
        for (int i = 0; i < g_nown; i++) if (g_ownhits[i].fn == g_own_fn && g_ownhits[i].write == is_write) return;
        if (g_nown < 2048) { g_ownhits[g_nown].addr = a; g_ownhits[g_nown].write = is_write; g_ownhits[g_nown].cls = (int)n; g_ownhits[g_nown].fn = g_own_fn; g_nown++; }
        return;
    }
    if (g_mode == MODE_OWN) {
        g_own_checked++;
        if (is_write && a >= g_ro_lo && a < g_ro_hi) {
            for (int i = 0; i < g_nown; i++) if (g_ownhits[i].fn == g_own_fn && g_ownhits[i].cls == 9) return;
            if (g_nown < 2048) { g_ownhits[g_nown].addr = a; g_ownhits[g_nown].write = 1; g_ownhits[g_nown].cls = 9; g_ownhits[g_nown].fn = g_own_fn; g_nown++; }
            return;
        }
        if (on_stack(a) || in_arena(a)) return;
        int sc = seg_class(a);
        if (sc == 1 && !is_write) return;
        for (int i = 0; i < g_nown; i++) if (g_ownhits[i].fn == g_own_fn && g_ownhits[i].write == is_write && g_ownhits[i].cls == sc) return;
        if (g_nown < 2048) { g_ownhits[g_nown].addr = a; g_ownhits[g_nown].write = is_write; g_ownhits[g_nown].cls = sc; g_ownhits[g_nown].fn = g_own_fn; g_nown++; }
        return;
    }
    if (g_cur < 0) return;
    if (on_stack(a)) return;
    if (!is_write && seg_class(a) == 1) return;      /* immutable memory commutes with everything */
    sched_yield_point();
}

/* ---- the TSan ABI, bound to vt_access ---- */
#define RW(n) void __tsan_read##n(void* a) { vt_access(a, n, 0); } void __tsan_write##n(void* a) { vt_access(a, n, 1); } \
              void __tsan_unaligned_read##n(void* a) { vt_access(a, n, 0); } void __tsan_unaligned_write##n(void* a) { vt_access(a, n, 1); }
RW(1) RW(2) RW(4) RW(8) RW(16)
void __tsan_read_range(void* a, unsigned long n) { vt_access(a, n, 0); }
void __tsan_write_range(void* a, unsigned long n) { vt_access(a, n, 1); }
void __tsan_read1_pc(void* a, void* pc) { (void)pc; vt_access(a, 1, 0); }
void __tsan_init(void) {}
void __tsan_func_entry(void* pc) { (void)pc; }
void __tsan_func_exit(void) {}
void __tsan_vptr_update(void** a, void* b) { (void)a; (void)b; }
void __tsan_vptr_read(void** a) { (void)a; }
void* __tsan_memcpy(void* d, const void* s, unsigned long n) { vt_access(s, n, 0); vt_access(d, n, 1); return memcpy(d, s, n); }
void* __tsan_memset(void* d, int c, unsigned long n) { vt_access(d, n, 1); return memset(d, c, n); }
void* __tsan_memmove(void* d, const void* s, unsigned long n) { vt_access(s, n, 0); vt_access(d, n, 1); return memmove(d, s, n); }
/* the instrumented library is compiled with -Dmemcpy=vt_memcpy -Dmemset=vt_memset (clang 14 does not route them itself) */
void* vt_memcpy(void* d, const void* s, size_t n) { vt_access(s, n, 0); vt_access(d, n, 1); return memcpy(d, s, n); }
void* vt_memset(void* d, int c, size_t n) { vt_access(d, n, 1); return memset(d, c, n); }

#include "sched_drivers.inc"

/* ------------------------------------------------------------------ */
/* scheduler                                                           */
/* ------------------------------------------------------------------ */
static const Driver* g_drv;
static void thread_entry(int tid)
{
    g_drv->body(tid);
    g_thr[tid].done = 1;
    g_cur = -1;
    setcontext(&g_main);
}
static void sched_yield_point(void)
{
    int t = g_cur;
    g_cur = -1;
    swapcontext(&g_thr[t].ctx, &g_main);
}

#define MAXPTS 4096
typedef struct { uint8_t nen; uint8_t running_enabled; uint8_t chosen; } Point;
typedef struct { Point pt[MAXPTS]; uint8_t choice[MAXPTS]; int npts; uint64_t outcome; int truncated; } Exec;

static uint64_t outcome_hash(void)
{
    uint64_t h = 7;
    for (int t = 0; t < g_nthr; t++) h = fnv(g_res[t].r, sizeof(uint64_t) * (size_t)g_res[t].n, h + (uint64_t)g_res[t].n);
    if (g_drv->arena_hash_len) h = fnv(g_arena, 4096 * (size_t)(g_nthr + 1), h);
    return h;
}

static uint64_t g_ref_outcome; static TRes g_ref_res[MAXT];
static uint64_t g_points_total, g_execs;
static void run_exec_here(const uint8_t* prefix, int nprefix, Exec* x);
#include <sys/wait.h>
/* drivers about first use (lazy initialisation, caches) need a fresh process per execution: library statics
 * cannot be reset, and an execution that inherits the previous one's state would not be a function of its schedule */
static int g_in_child;
static void run_exec(const uint8_t* prefix, int nprefix, Exec* x)
{
    if (!g_drv->fresh_process) { run_exec_here(prefix, nprefix, x); return; }
    static Exec* shared; static TRes* shres;
    if (!shared) { shared = mmap(NULL, sizeof(Exec) + sizeof(TRes) * MAXT, PROT_READ | PROT_WRITE, MAP_SHARED | MAP_ANONYMOUS, -1, 0); shres = (TRes*)(shared + 1); }
    fflush(stdout);
    pid_t pid = fork();
    if (pid == 0) { g_in_child = 1; run_exec_here(prefix, nprefix, shared); memcpy(shres, g_res, sizeof(TRes) * MAXT); _exit(0); }
    int st = 0; waitpid(pid, &st, 0);
    if (!WIFEXITED(st) || WEXITSTATUS(st) != 0) { memset(x, 0, sizeof *x); x->truncated = 1; x->outcome = 0xDEADull; g_execs++; return; }
    memcpy(x, shared, sizeof *x); memcpy(g_res, shres, sizeof(TRes) * MAXT);
    g_points_total += (uint64_t)x->npts; g_execs++;
}
static void run_exec_here(const uint8_t* prefix, int nprefix, Exec* x)
{
    g_mode = MODE_OFF;
    g_drv->setup();
    for (int t = 0; t < g_nthr; t++) {
        g_res[t].n = 0;
        g_thr[t].done = 0;
        getcontext(&g_thr[t].ctx);
        g_thr[t].ctx.uc_stack.ss_sp = g_thr[t].stack;
        g_thr[t].ctx.uc_stack.ss_size = STACKSZ;
        g_thr[t].ctx.uc_link = &g_main;
        makecontext(&g_thr[t].ctx, (void (*)(void))thread_entry, 1, t);
    }
    g_mode = MODE_SCHED;
    int running = -1;
    x->npts = 0; x->truncated = 0;
    for (;;) {
        int en[MAXT], nen = 0;
        int running_enabled = running >= 0 && !g_thr[running].done;
        if (running_enabled) en[nen++] = running;
        for (int t = 0; t < g_nthr; t++) if (!g_thr[t].done && !(running_enabled && t == running)) en[nen++] = t;
        if (!nen) break;
        int i = x->npts;
        if (i >= MAXPTS) { x->truncated = 1; break; }
        int c = i < nprefix ? prefix[i] : 0;
        if (c >= nen) {
            /* the scheduler, the drivers and the thunks are deterministic and every driver resets what it owns: a schedule
             * prefix that cannot be replayed means an execution depended on the executions before it - state that survives
             * inside the code under test. Reported as such (the planted-bug self-test has no such state and must replay). */
            if (!g_drv || g_drv == &DRIVERS[0] || g_in_child) { fprintf(stderr, "divergent replay: choice %d of %d at point %d\n", c, nen, i); exit(2); }
            char key[200]; snprintf(key, sizeof key, "hidden state: executions of '%s' depend on the executions before them", g_drv->name);
            violation("C16", key, "O:0", "replaying a schedule prefix diverged at point %d (choice %d of %d enabled threads): the same calls on freshly set-up objects took another path than in the previous execution", i, c, nen);
            printf("I\tdriver '%s': exploration stopped at a divergent replay\n", g_drv->name);
            emit_counters("C16"); fflush(stdout); _exit(0);
        }
        x->pt[i].nen = (uint8_t)nen; x->pt[i].running_enabled = (uint8_t)running_enabled; x->pt[i].chosen = (uint8_t)en[c];
        x->choice[i] = (uint8_t)c;
        x->npts++;
        running = en[c];
        g_cur = running;
        swapcontext(&g_main, &g_thr[running].ctx);
    }
    g_mode = MODE_OFF;
    g_points_total += (uint64_t)x->npts;
    g_execs++;
    x->outcome = outcome_hash();
}


static uint64_t g_outcomes[64]; static int g_noutcomes;
static int g_bound;
static int g_bad_schedules;
static char g_first_bad[600];
static int g_maxexec_hit;
static uint64_t g_exec_cap = 3000000;
static uint64_t g_drv_e0; static double g_drv_deadline, g_drv_budget = 120.0;
static double now_s(void) { struct timespec ts; clock_gettime(CLOCK_MONOTONIC, &ts); return (double)ts.tv_sec + 1e-9 * (double)ts.tv_nsec; }

static void check_exec(const Exec* x, int di)
{
    int known = 0;
    for (int i = 0; i < g_noutcomes; i++) if (g_outcomes[i] == x->outcome) known = 1;
    if (!known && g_noutcomes < 64) g_outcomes[g_noutcomes++] = x->outcome;
    hs_add(x->outcome ^ fnv(x->choice, (size_t)x->npts, 0));
    if (x->outcome != g_ref_outcome || x->truncated) {
        g_bad_schedules++;
        if (!g_first_bad[0]) {
            int n = snprintf(g_first_bad, sizeof g_first_bad, "%d:%d:%d:", di, g_nthr, x->npts);
            for (int i = 0; i < x->npts && n < 560; i++) n += snprintf(g_first_bad + n, sizeof g_first_bad - (size_t)n, "%d", x->choice[i]);
        }
    }
}

static void explore(const uint8_t* prefix, int nprefix, int di)
{
    static Exec pool[64]; static int depth;
    if (g_execs >= g_exec_cap) { g_maxexec_hit = 1; return; }
    /* a driver whose schedules already differ from the sequential reference is not explored beyond 400 executions
     * (the verdict is settled), and no driver beyond its wall-clock budget: both are reported as a cap, never as coverage */
    if ((g_bad_schedules && g_execs - g_drv_e0 > 400) || (g_drv_deadline && (g_execs & 63) == 0 && now_s() > g_drv_deadline)) { g_maxexec_hit = 1; return; }
    Exec* x = depth < 64 ? &pool[depth] : NULL;
    if (!x) { g_maxexec_hit = 1; return; }
    depth++;
    run_exec(prefix, nprefix, x);
    check_exec(x, di);
    int cost = 0;
    /* preemptions inside the prefix */
    for (int i = 0; i < nprefix && i < x->npts; i++) if (x->pt[i].running_enabled && x->choice[i] != 0) cost++;
    for (int i = nprefix; i < x->npts; i++) {
        /* cost of deviating at i = preemptions before i (+1 if the running thread is still enabled) */
        int c = cost + (x->pt[i].running_enabled ? 1 : 0);
        if (c <= g_bound) {
            for (int alt = 1; alt < x->pt[i].nen; alt++) {
                static uint8_t np[64][MAXPTS];
                uint8_t* p = np[depth - 1];
                memcpy(p, x->choice, (size_t)i);
                p[i] = (uint8_t)alt;
                explore(p, i + 1, di);
            }
        }
        /* choice[i] is 0 beyond the prefix: no extra cost accumulates */
    }
    depth--;
}

static void sequential_reference_here(void);
static void sequential_reference(void)
{
    if (!g_drv->fresh_process) { sequential_reference_here(); return; }
    static uint64_t* sh;
    if (!sh) sh = mmap(NULL, 4096 + sizeof(TRes) * MAXT, PROT_READ | PROT_WRITE, MAP_SHARED | MAP_ANONYMOUS, -1, 0);
    fflush(stdout);
    pid_t pid = fork();
    if (pid == 0) { sequential_reference_here(); sh[0] = g_ref_outcome; memcpy(sh + 8, g_ref_res, sizeof(TRes) * MAXT); _exit(0); }
    int st = 0; waitpid(pid, &st, 0);
    g_ref_outcome = sh[0]; memcpy(g_ref_res, sh + 8, sizeof(TRes) * MAXT);
}
static void sequential_reference_here(void)
{
    g_mode = MODE_OFF; g_cur = -1;
    g_drv->setup();
    for (int t = 0; t < g_nthr; t++) { g_res[t].n = 0; }
    for (int t = 0; t < g_nthr; t++) g_drv->body(t);
    g_ref_outcome = outcome_hash();
    memcpy(g_ref_res, g_res, sizeof g_res);
}

static int run_driver(int di, int nthr, int bound, int report)
{
    g_drv = &DRIVERS[di]; g_nthr = nthr; g_bound = bound;
    g_noutcomes = 0; g_bad_schedules = 0; g_first_bad[0] = 0; g_maxexec_hit = 0;
    uint64_t e0 = g_execs, p0 = g_points_total, h0 = g_hooks;
    g_drv_e0 = g_execs; g_drv_deadline = report ? now_s() + g_drv_budget : 0;
    sequential_reference();
    uint8_t none[1];
    explore(none, 0, di);
    uint64_t execs = g_execs - e0;
    g_cnt.cases += execs; g_cnt.transitions += g_points_total - p0; g_cnt.nontrivial += execs;
    if (report) {
        printf("D\t%d\t%s\tthreads=%d bound=%d schedules=%llu points=%llu hooked=%llu outcomes=%d bad=%d%s\n", di, g_drv->name, nthr, bound,
               (unsigned long long)execs, (unsigned long long)(g_points_total - p0), (unsigned long long)(g_hooks - h0), g_noutcomes, g_bad_schedules, g_maxexec_hit ? " CAPPED" : "");
        if (g_bad_schedules) {
            char key[200]; snprintf(key, sizeof key, "schedule-dependent result: %s", g_drv->name);
            char csb[700]; snprintf(csb, sizeof csb, "S:%s", g_first_bad);
            violation("C16", key, csb, "%d of %llu schedules (%d threads, <= %d preemptions) give per-thread results or buffers different from the sequential reference; %d distinct outcomes", g_bad_schedules, (unsigned long long)execs, nthr, bound, g_noutcomes);
        }
        if (g_maxexec_hit) printf("I\tdriver %d capped after %llu executions\n", di, (unsigned long long)execs);
    }
    return g_bad_schedules;
}

/* ------------------------------------------------------------------ */
/* ownership pass                                                      */
/* ------------------------------------------------------------------ */
static void own_begin(const char* fn) { g_own_fn = fn; g_ro_lo = g_ro_hi = 0; g_mode = MODE_OWN; }
static void own_begin_ro(const char* fn, const uint8_t* p, size_t n) { own_begin(fn); g_ro_lo = (uintptr_t)p; g_ro_hi = g_ro_lo + n; }
static void own_end(void)
{
    g_mode = MODE_OFF;
    g_cnt.cases++; g_cnt.nontrivial++;
}
static void own_report(void)
{
    for (int i = 0; i < g_nown; i++) {
        char key[256];
        const char* what = g_ownhits[i].cls == 9 ? "write to an object that was passed to a reading operation" : g_ownhits[i].cls == 2 ? (g_ownhits[i].write ? "write to a writable static-storage object" : "read of a writable static-storage object")
                         : g_ownhits[i].cls == 1 ? "write to a read-only image segment" : (g_ownhits[i].write ? "write to memory that was not passed in" : "read of memory that was not passed in");
        snprintf(key, sizeof key, "ownership: %s", what);
        violation("C16", key, "O:0", "during %s: access at %p", g_ownhits[i].fn, (void*)g_ownhits[i].addr);
    }
}
static void ownership_pass(void)
{
    uint8_t* p = g_arena + 8192; uint8_t out8[8];
    char nm[160];
    for (int fmt = 0; fmt < g_nfmts; fmt++) {
        const RowFmt* F = &g_fmts[fmt];
        memset(p, 0x5A, 64);
        snprintf(nm, sizeof nm, "%s Init", F->name); own_begin(strdup(nm)); w_init((uint64_t)fmt, p); own_end();
        if (F->has_linit) { snprintf(nm, sizeof nm, "%s legacy init", F->name); own_begin(strdup(nm)); w_linit((uint64_t)fmt, p, 1); own_end(); }
        for (int f = 0; f < F->nf; f++) {
            snprintf(nm, sizeof nm, "%s GetField/SetField(%s)", F->name, F->f[f].name); own_begin(strdup(nm));
            w_set((uint64_t)fmt, (uint64_t)f, 0, p, ~0ull); (void)w_get((uint64_t)fmt, (uint64_t)f, 0, p); own_end();
            if (F->f[f].hasg) { own_begin_ro(F->f[f].getter, p, 64); (void)w_get((uint64_t)fmt, (uint64_t)f, 1, p); own_end(); }
            snprintf(nm, sizeof nm, "%s GetField(%s)", F->name, F->f[f].name); own_begin_ro(strdup(nm), p, 64); (void)w_get((uint64_t)fmt, (uint64_t)f, 0, p); own_end();
            if (F->f[f].hass) { own_begin(F->f[f].setter); w_set((uint64_t)fmt, (uint64_t)f, 1, p, 0x0123456789ABCDEFull); own_end(); }
            if (F->has_legacy) { snprintf(nm, sizeof nm, "%s legacy get/set(%s)", F->name, F->f[f].name); own_begin(strdup(nm));
                uint64_t id = w_enumv((uint64_t)fmt, (uint64_t)f); w_lset((uint64_t)fmt, p, id, 5); w_lget((uint64_t)fmt, p, id, 0, out8); own_end(); }
        }
    }
    for (int fmt = 0; fmt < g_nfmts; fmt++) {
        snprintf(nm, sizeof nm, "%s GetField/SetField with invalid arguments", g_fmts[fmt].name); own_begin(strdup(nm));
        (void)w_getid((uint64_t)fmt, p, 200); w_setid((uint64_t)fmt, p, 200, 1); (void)w_getid((uint64_t)fmt, NULL, 0); w_setid((uint64_t)fmt, NULL, 0, 1);
        (void)w_getid((uint64_t)fmt, p, (uint64_t)-1); w_init((uint64_t)fmt, NULL);
        if (g_fmts[fmt].has_legacy) { (void)w_lget((uint64_t)fmt, NULL, 0, 0, out8); (void)w_lget((uint64_t)fmt, p, 250, 0, out8); (void)w_lset((uint64_t)fmt, p, 250, 1); }
        own_end();
    }
    own_begin("Avtp_GetField/Avtp_SetField (generic)"); w_gset(1, 5, 64, p, ~0ull); (void)w_gget(1, 5, 64, p); own_end();
    /* hand-written serialisers, with every object reachable from an argument inside the arena */
    F_CAN = fidx("Can");
    for (int t = 0; t < 3; t++) {
        g_nthr = 3;
        own_begin("ACF-CAN builders"); d_can_setup(); g_mode = MODE_OWN; d_builder_body(t); w_canbrief_create(buf_of(t), 0x123, buf_of(t) + 1024, 7, 1); w_canbrief_steps(buf_of(t), 0x123, buf_of(t) + 1024, 8, 0); w_can_steps(buf_of(t), 0x7ff, buf_of(t) + 1024, 5, 0); own_end();
        own_begin("VSS codec"); d_vss_body(t); w_vss_pathlen(buf_of(t)); { uint8_t o[8]; w_vss_get_path(buf_of(t), (uint64_t)(t == 1), buf_of(t) + 3500, o); } own_end();
        own_begin_ro("VSS decoding of a message", g_arena, 256); g_mode = MODE_OFF; d_vss_shared_setup(); g_mode = MODE_OWN; d_vss_shared_body(t); own_end();
        own_begin("VSS string arrays"); d_sa_body(t); own_end();
        /* queries and decoders on inputs that are cut off (a length prefix that announces more than is there, an array that ends
         * inside a prefix): the input was passed for reading, nothing may be stored into it */
        { uint8_t* a = buf_of(t) + 2048; uint8_t* dest = buf_of(t) + 2300; uint8_t* offs = buf_of(t) + 2600; uint8_t* ol = buf_of(t) + 2700;
          static const uint8_t cut[3][8] = { {0, 2, 'a', 'b', 0, 9, 'c', 'd'}, {0, 1, 'x', 0, 0, 0, 0, 0}, {0xFF, 0xFF, 'q', 'r', 's', 't', 'u', 'v'} };
          static const int cutlen[3] = {8, 4, 8};
          for (int k = 0; k < 3; k++) {
              g_mode = MODE_OFF; memcpy(a, cut[k], 8); for (int i = 0; i < 3; i++) { offs[4 * i] = 0; offs[4 * i + 1] = 0; offs[4 * i + 2] = 0; offs[4 * i + 3] = (uint8_t)(32 * i); }
              own_begin_ro("string-array count/decode of a cut-off array", a, 16);
              (void)w_sa_count(a, (uint64_t)cutlen[k]);
              if (k < 2) w_sa_unpack(a, (uint64_t)cutlen[k], 2, dest, offs, ol);      /* (an announced length of 65535 would legitimately run off this small arena) */
              own_end();
          } }
    }
    for (int t = 0; t < MAXT; t++) g_res[t].n = 0;
    g_cnt.transitions += g_own_checked;
    own_report();
    printf("I\townership pass: %llu hooked accesses classified, %d outside {stack, passed objects, read-only segments}\n", (unsigned long long)g_own_checked, g_nown);
}

/* ------------------------------------------------------------------ */
/* C03, instrumented: every access of every accessor must lie inside the */
/* published header length - at header addresses of every residue mod 8  */
/* (guard pages can only watch headers that end at a page boundary)      */
/* ------------------------------------------------------------------ */
static void ext_call(const char* fn, uint8_t* hdr, int len, int kind, int fmt, int fld, int path)
{
    uint8_t out8[8];
    g_own_fn = fn; g_ext_lo = (uintptr_t)hdr; g_ext_hi = g_ext_lo + (uintptr_t)len;
    g_mode = MODE_EXT;
    switch (kind) {
    case 0: (void)w_get((uint64_t)fmt, (uint64_t)fld, (uint64_t)path, hdr); break;
    case 1: w_set((uint64_t)fmt, (uint64_t)fld, (uint64_t)path, hdr, 0x0123456789ABCDEFull); w_set((uint64_t)fmt, (uint64_t)fld, (uint64_t)path, hdr, ~0ull); break;
    case 2: w_init((uint64_t)fmt, hdr); break;
    case 3: (void)w_linit((uint64_t)fmt, hdr, 1); break;
    case 4: { uint64_t id = w_enumv((uint64_t)fmt, (uint64_t)fld); (void)w_lget((uint64_t)fmt, hdr, id, 0, out8); (void)w_lset((uint64_t)fmt, hdr, id, 5); break; }
    }
    g_mode = MODE_OFF;
    g_cnt.cases++; g_cnt.nontrivial++;
}
static void extent_pass(void)
{
    char nm[200];
    for (int fmt = 0; fmt < g_nfmts; fmt++) {
        const RowFmt* F = &g_fmts[fmt];
        int len = (int)w_fact((uint64_t)fmt, 2, NULL);
        for (int res = 0; res < 8; res++) {
            uint8_t* hdr = g_arena + 8192 + 64 + res;      /* 8-aligned + residue */
            memset(hdr - 64, 0x5A, 256);
            for (int f = 0; f < F->nf; f++) for (int path = 0; path < 2; path++) {
                if (path && !F->f[f].hasg && !F->f[f].hass) continue;
                if (!path || F->f[f].hasg) { snprintf(nm, sizeof nm, "%s:%s", F->name, path ? F->f[f].getter : "GetField"); if (!path) snprintf(nm + strlen(nm), sizeof nm - strlen(nm), "(%s)", F->f[f].name); ext_call(strdup(nm), hdr, len, 0, fmt, f, path); }
                if (!path || F->f[f].hass) { snprintf(nm, sizeof nm, "%s:%s", F->name, path ? F->f[f].setter : "SetField"); if (!path) snprintf(nm + strlen(nm), sizeof nm - strlen(nm), "(%s)", F->f[f].name); ext_call(strdup(nm), hdr, len, 1, fmt, f, path); }
                if (!path && F->has_legacy) { snprintf(nm, sizeof nm, "%s:legacy get/set(%s)", F->name, F->f[f].name); ext_call(strdup(nm), hdr, len, 4, fmt, f, 0); }
            }
            if (F->has_init) { snprintf(nm, sizeof nm, "%s:Init", F->name); ext_call(strdup(nm), hdr, len, 2, fmt, 0, 0); }
            if (F->has_linit) { snprintf(nm, sizeof nm, "%s:legacy-init", F->name); ext_call(strdup(nm), hdr, len, 3, fmt, 0, 0); }
        }
    }
    g_cnt.transitions += g_own_checked;
    for (int i = 0; i < g_nown; i++) {
        char key[256];
        snprintf(key, sizeof key, "%s access-outside-published-header (instrumented)", g_ownhits[i].fn);
        violation("C03", key, "X:0", "%s of %d bytes at header%+ld (header is %ld bytes; header address %% 8 = %ld)", g_ownhits[i].write ? "write" : "read", g_ownhits[i].cls,
                  (long)((intptr_t)g_ownhits[i].addr - (intptr_t)g_ext_lo) , (long)(g_ext_hi - g_ext_lo), (long)(g_ext_lo & 7));
    }
    printf("I\textent pass: %llu hooked accesses checked against the published header extents at 8 address residues, %d outside\n", (unsigned long long)g_own_checked, g_nown);
}

int main(int argc, char** argv)
{
    int thorough = 0; int extent = 0; const char* rep = NULL; int only = -1;
    for (int i = 1; i < argc; i++) {
        if (!strcmp(argv[i], "--tier")) { thorough = !strcmp(argv[++i], "thorough"); if (thorough) g_drv_budget = 900.0; }
        else if (!strcmp(argv[i], "--case")) rep = argv[++i];
        else if (!strcmp(argv[i], "--driver")) only = atoi(argv[++i]);
        else if (!strcmp(argv[i], "--extent")) extent = 1;
        else if (!strcmp(argv[i], "--slice")) i++;
        else if (!strcmp(argv[i], "--suite")) i++;
    }
    setvbuf(stdout, NULL, _IOFBF, 1 << 16);
    dl_iterate_phdr(phdr_cb, NULL);
    { pthread_attr_t a; void* sa; size_t ss; pthread_getattr_np(pthread_self(), &a); pthread_attr_getstack(&a, &sa, &ss); g_mainstack_lo = (uintptr_t)sa; g_mainstack_hi = g_mainstack_lo + ss; pthread_attr_destroy(&a); }
    g_arena_size = 1 << 16;
    g_arena = mmap(NULL, g_arena_size, PROT_READ | PROT_WRITE, MAP_PRIVATE | MAP_ANONYMOUS, -1, 0);
    for (int t = 0; t < MAXT; t++) g_thr[t].stack = mmap(NULL, STACKSZ, PROT_READ | PROT_WRITE, MAP_PRIVATE | MAP_ANONYMOUS, -1, 0);
    F_CAN = fidx("Can"); F_LIN = fidx("Lin"); F_TSCF = fidx("Tscf"); F_RVF = fidx("Rvf"); F_VSS = fidx("Vss"); F_CRF = fidx("Crf");
    if (extent) { g_prop = "C03"; extent_pass(); sample("C03 instrumented: Avtp_Udp_SetEncapsulationSeqNo on a 4-byte header at an 8-aligned address: every hooked access must lie in [header, header+4)"); emit_counters("C03"); return 0; }
    if (rep) {
        /* S:<driver>:<threads>:<npts>:<choices> -> replay that schedule twice, insist on identical observations */
        g_verbose = 1;
        if (rep[0] == 'O') { ownership_pass(); emit_counters("C16"); return g_cnt.violations ? 1 : 0; }
        int di, nt, np; char ch[MAXPTS + 1] = "";
        if (sscanf(rep, "S:%d:%d:%d:%4095s", &di, &nt, &np, ch) < 3) { fprintf(stderr, "bad case\n"); return 2; }
        g_drv = &DRIVERS[di]; g_nthr = nt;
        sequential_reference();
        static uint8_t pre[MAXPTS]; int n = (int)strlen(ch);
        for (int i = 0; i < n; i++) pre[i] = (uint8_t)(ch[i] - '0');
        static Exec x1, x2;
        run_exec(pre, n, &x1); run_exec(pre, n, &x2);
        printf("OBS C16 driver '%s' schedule of %d points: outcome %016llx, again %016llx, sequential reference %016llx\n", g_drv->name, x1.npts, (unsigned long long)x1.outcome, (unsigned long long)x2.outcome, (unsigned long long)g_ref_outcome);
        for (int t = 0; t < nt; t++) { printf("OBS thread %d results:", t); for (int i = 0; i < g_res[t].n; i++) printf(" %llx", (unsigned long long)g_res[t].r[i]); printf("  | sequential:"); for (int i = 0; i < g_ref_res[t].n; i++) printf(" %llx", (unsigned long long)g_ref_res[t].r[i]); printf("\n"); }
        if (x1.outcome != x2.outcome) { printf("NON-DETERMINISTIC replay\n"); return 3; }
        return x1.outcome != g_ref_outcome ? 1 : 0;
    }
    /* planted-bug self-test: the toy's lost update must be found with one preemption */
    if (!run_driver(0, 2, 1, 0)) { fprintf(stderr, "self-test failed: the explorer did not find the planted lost update\n"); return 2; }
    printf("I\tself-test: planted shared counter: %d of %llu schedules differ from the sequential result (found, as required)\n", g_bad_schedules, (unsigned long long)g_execs);
    g_cnt.cases = g_cnt.transitions = g_cnt.nontrivial = 0; g_execs = 0; g_points_total = 0;
    hs_reset(); g_cnt.states = 0;
    /* first-use drivers run before anything else has called the library in this process: their forked
     * executions must start from a process in which no lazy initialisation has happened yet */
    for (int pass = 0; pass < 2; pass++) {
    if (pass == 1) ownership_pass();
    for (int di = 1; di < NDRIVERS; di++) {
        if (only >= 0 && di != only) continue;
        int fr = DRIVERS[di].fresh_process;
        if (fr != (pass == 0)) continue;
        run_driver(di, 2, (thorough ? 4 : 3) - fr, 1);
        run_driver(di, 3, (thorough ? 3 : 2) - fr, 1);
    }
    }
    sample("driver 'distinct CAN headers': 2 threads x {init; set identifier; set eff; get; get}; every hooked access to non-stack, non-read-only memory is a scheduling point; all schedules with <= 2 preemptions");
    sample("driver 'one read-shared RVF header': all threads read stream_id/avtp_timestamp/line_number/pixel_depth/tu from the same 32 bytes");
    emit_counters("C16");
    return 0;
}
