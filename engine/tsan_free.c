/* Complement of the schedule explorer: the same driver bodies run by real
 * pthreads, free-running, in a build instrumented by the real ThreadSanitizer
 * (a cooperative scheduler's hand-offs would be happens-before edges that blind
 * a race detector, so this is a separate binary). Not the deciding step. */
#define _GNU_SOURCE
#include <stdint.h>
#include <stdio.h>
#include <stdlib.h>
#include <string.h>
#include <pthread.h>
#include <sys/mman.h>
#include "../world/world.h"
#include "../world/world_ser.h"
#include "rows_gen.h"
#define MAXT 3
static uint8_t* g_arena;
static inline uint64_t fnv(const void* p, size_t n, uint64_t h)
{
    const uint8_t* b = (const uint8_t*)p;
    if (!h) h = 1469598103934665603ull;
    for (size_t i = 0; i < n; i++) { h ^= b[i]; h *= 1099511628211ull; }
    return h;
}
#include "sched_drivers.inc"
static pthread_barrier_t bar;
static const Driver* drv;
static void* worker(void* a) { int tid = (int)(intptr_t)a; pthread_barrier_wait(&bar); drv->body(tid); return NULL; }
int main(int argc, char** argv)
{
    int iters = argc > 1 ? atoi(argv[1]) : 1000;
    g_arena = mmap(NULL, 1 << 16, PROT_READ | PROT_WRITE, MAP_PRIVATE | MAP_ANONYMOUS, -1, 0);
    F_CAN = fidx("Can"); F_LIN = fidx("Lin"); F_TSCF = fidx("Tscf"); F_RVF = fidx("Rvf"); F_VSS = fidx("Vss"); F_CRF = fidx("Crf");
    int mism = 0;
    for (int di = 1; di < NDRIVERS; di++) {
        drv = &DRIVERS[di];
        TRes ref[MAXT];
        drv->setup();
        for (int t = 0; t < MAXT; t++) g_res[t].n = 0;
        for (int t = 0; t < MAXT; t++) drv->body(t);
        memcpy(ref, g_res, sizeof ref);
        for (int it = 0; it < iters / NDRIVERS + 1; it++) {
            drv->setup();
            for (int t = 0; t < MAXT; t++) g_res[t].n = 0;
            pthread_t th[MAXT];
            pthread_barrier_init(&bar, NULL, MAXT);
            for (int t = 0; t < MAXT; t++) pthread_create(&th[t], NULL, worker, (void*)(intptr_t)t);
            for (int t = 0; t < MAXT; t++) pthread_join(th[t], NULL);
            pthread_barrier_destroy(&bar);
            for (int t = 0; t < MAXT; t++) if (g_res[t].n != ref[t].n || memcmp(g_res[t].r, ref[t].r, sizeof(uint64_t) * (size_t)ref[t].n)) mism++;
        }
    }
    printf("drivers=%d iterations=%d %s\n", NDRIVERS - 1, iters, mism ? "mismatch with the sequential result" : "all results equal the sequential ones");
    return mism ? 1 : 0;
}
