/* E4: environment seam + batch harness for the example programs.
 *
 * The example's own translation unit is compiled unmodified with
 *   -Dmain=ex_main -Drecv=vt_recv -Dpoll=vt_poll -Dread=vt_read -Dwrite=vt_write
 *   -Dsendto=vt_sendto -Dsocket=vt_socket -Dbind=vt_bind -Dsetsockopt=vt_setsockopt
 *   -Dioctl=vt_ioctl -Dclose=vt_close -Dtimerfd_create=vt_timerfd_create
 *   -Dtimerfd_settime=vt_timerfd_settime -Dclock_gettime=vt_clock_gettime -Dsleep=vt_sleep
 * so that every environment answer comes from a script. This file provides the
 * vt_* functions and a main() that reads scripts from stdin, runs each in a
 * forked child (the real ex_main) and prints one result line per script.
 *
 * script line:  <id> TAB <argv, space separated> TAB <presets> TAB <events, comma separated>
 *   event  D<hex> datagram for recv()      C<hex> CAN frame for read() on the CAN socket
 *          E<hex> datagram that poll() reports although a timer expiry is pending (the timer stays pending)
 *          B<hex> datagram that poll() reports together with the pending timer expiry (both descriptors ready)
 *          (D: pending timer expiries are delivered before the datagram)
 *          Dx<count>[/<off>.<width>.<delta>]*:<hex>   the datagram <count> times; before the i-th delivery the
 *          big-endian number of <width> bytes at <off> is advanced by i*<delta> (sequence numbers, timestamps).
 *          Only the first three and the last two deliveries of a repeated event are logged.
 * result line:  <id> TAB <status> TAB <effects> TAB <report>
 *   status ok           the script was consumed and the program asked for more (receive loop alive)
 *          returned:<n> main returned before the script was consumed
 *          exit:<n> / signal:<n> / hang
 */
#define _GNU_SOURCE
#include <stdint.h>
#include <stdio.h>
#include <stdlib.h>
#include <string.h>
#include <unistd.h>
#include <errno.h>
#include <time.h>
#include <poll.h>
#include <signal.h>
#include <sys/mman.h>
#include <sys/wait.h>
#include <sys/socket.h>
#include <sys/ioctl.h>
#include <sys/timerfd.h>
#include <net/if.h>
#include <linux/can.h>

int ex_main(int argc, char** argv);
void vt_presets(const char* presets);       /* provided per program: sets mode variables that have no usable option */

#define MAXEV 1200
typedef struct { char kind; int len; uint8_t data[2048]; int rep, nst; struct { int off, w; long long delta; } st[8]; } Event;
static Event g_ev[MAXEV]; static int g_nev, g_pos, g_rep, g_quiet;
static int g_timer_armed, g_timer_periodic, g_expiry_budget, g_timer_fd = -1, g_can_fd = -1, g_net_fd = -1;
static int g_next_fd = 100;

/* effects log in shared memory (survives a crashing child) */
#define LOGSZ (1 << 19)
static char* g_log; static volatile uint32_t* g_loglen;
static void elog(const char* fmt, ...) __attribute__((format(printf, 1, 2)));
#include <stdarg.h>
static void elog(const char* fmt, ...)
{
    if (*g_loglen > LOGSZ - 600 || g_quiet) return;
    va_list ap; va_start(ap, fmt);
    int n = vsnprintf(g_log + *g_loglen, LOGSZ - *g_loglen, fmt, ap);
    va_end(ap);
    if (n > 0) *g_loglen += (uint32_t)n;
}
static void elog_hex(const uint8_t* p, size_t n)
{
    for (size_t i = 0; i < n && *g_loglen < LOGSZ - 600; i++) elog("%02x", p[i]);
}

static void end_of_script(void)
{
    fflush(stdout);
    _exit(0);
}

/* next event of the script (a repeated event is materialised per delivery) */
static int have_event(void) { return g_pos < g_nev; }
static Event* next_event(void)
{
    static Event cur;
    Event* e = &g_ev[g_pos];
    if (e->rep <= 1) { g_pos++; g_quiet = 0; return e; }
    cur.kind = e->kind; cur.len = e->len;
    memcpy(cur.data, e->data, (size_t)e->len);
    for (int k = 0; k < e->nst; k++) {
        int off = e->st[k].off, w = e->st[k].w;
        if (off + w > e->len || w > 8) continue;
        unsigned long long v = 0;
        for (int i = 0; i < w; i++) v = (v << 8) | cur.data[off + i];
        v += (unsigned long long)e->st[k].delta * (unsigned long long)g_rep;
        for (int i = w - 1; i >= 0; i--) { cur.data[off + i] = (uint8_t)v; v >>= 8; }
    }
    g_quiet = g_rep >= 3 && g_rep < e->rep - 2;
    if (++g_rep >= e->rep) { g_rep = 0; g_pos++; }
    return &cur;
}

/* Loop-iteration invariant: where the program waits for its next input, its stack pointer must not keep
 * sinking from one wait to the next (an alloca or a recursion per datagram exhausts the stack on a long
 * enough conversation, however short the explored one is). Three strict decreases at one call site
 * without an increase in between are reported. */
static void sp_probe(void* site, void* frame)
{
    static struct { void* site; uintptr_t first, last; int down, told; } t[16];
    uintptr_t fa = (uintptr_t)frame;
    for (int i = 0; i < 16; i++) {
        if (t[i].site == NULL) { t[i].site = site; t[i].first = t[i].last = fa; return; }
        if (t[i].site != site) continue;
        if (fa < t[i].last) t[i].down++;
        else if (fa > t[i].last) t[i].down = 0;
        t[i].last = fa;
        if (t[i].down >= 3 && !t[i].told) {
            int q = g_quiet; g_quiet = 0;
            elog("STACKGROWTH %ld bytes over %d waits;", (long)(t[i].first - fa), t[i].down);
            g_quiet = q; t[i].told = 1;
        }
        return;
    }
}
#define SP_PROBE() sp_probe(__builtin_return_address(0), __builtin_frame_address(0))

/* ---------------- the seam ---------------- */
int vt_socket(int domain, int type, int protocol)
{
    (void)type; (void)protocol;
    int fd = g_next_fd++;
    if (domain == AF_CAN) g_can_fd = fd; else g_net_fd = fd;
    return fd;
}
int vt_bind(int fd, const struct sockaddr* a, socklen_t l) { (void)fd; (void)a; (void)l; return 0; }
int vt_setsockopt(int fd, int level, int name, const void* v, socklen_t l) { (void)fd; (void)level; (void)name; (void)v; (void)l; return 0; }
int vt_ioctl(int fd, unsigned long req, void* arg)
{
    (void)fd;
    if (req == SIOCGIFINDEX && arg) ((struct ifreq*)arg)->ifr_ifindex = 3;
    if (req == SIOCGIFHWADDR && arg) memset(((struct ifreq*)arg)->ifr_hwaddr.sa_data, 0x02, 6);
    return 0;
}
int vt_close(int fd) { (void)fd; return 0; }
int vt_timerfd_create(int clockid, int flags) { (void)clockid; (void)flags; g_timer_fd = g_next_fd++; return g_timer_fd; }
int vt_timerfd_settime(int fd, int flags, const struct itimerspec* nv, struct itimerspec* ov)
{
    (void)fd; (void)flags; (void)ov;
    /* like the kernel: an invalid timespec is rejected */
    if (nv && (nv->it_value.tv_nsec < 0 || nv->it_value.tv_nsec > 999999999L || nv->it_value.tv_sec < 0 ||
               nv->it_interval.tv_nsec < 0 || nv->it_interval.tv_nsec > 999999999L)) { elog("TIMER rejected(EINVAL);"); errno = EINVAL; return -1; }
    g_timer_armed = nv && (nv->it_value.tv_sec || nv->it_value.tv_nsec);
    g_timer_periodic = nv && (nv->it_interval.tv_sec || nv->it_interval.tv_nsec);
    g_expiry_budget = 2;        /* horizon: a periodic timer fires at most twice between two datagrams */
    elog("TIMER %s;", g_timer_armed ? "armed" : "disarmed");
    return 0;
}
int vt_clock_gettime(clockid_t id, struct timespec* ts) { (void)id; ts->tv_sec = 1700000000; ts->tv_nsec = 123456789; return 0; }
/* horizon for programs that send on their own and sleep in between (preset "sleeps=<n>"): the script ends at the n-th sleep */
static int g_sleep_budget = -1;
static void end_of_script(void);
unsigned vt_sleep(unsigned s);
ssize_t vt_write(int fd, const void* buf, size_t n);
ssize_t vt_sendto(int fd, const void* buf, size_t n, int flags, const struct sockaddr* a, socklen_t l);
unsigned vt_sleep(unsigned s) { (void)s; if (g_sleep_budget >= 0 && --g_sleep_budget < 0) end_of_script(); return 0; }

ssize_t vt_recv(int fd, void* buf, size_t n, int flags)
{
    (void)fd; (void)flags;
    SP_PROBE();
    if (!have_event()) end_of_script();
    Event* e = next_event();
    size_t c = (size_t)e->len < n ? (size_t)e->len : n;
    memcpy(buf, e->data, c);
    if (g_timer_periodic) { g_expiry_budget = 2; g_timer_armed = g_timer_armed || g_expiry_budget > 0; }
    fflush(stdout);
    elog("RECV %d@%ld;", e->len, (long)lseek(STDOUT_FILENO, 0, SEEK_CUR));      /* where this datagram's output starts in the captured stdout */
    return (ssize_t)c;
}
ssize_t vt_recvfrom(int fd, void* buf, size_t n, int flags, struct sockaddr* a, socklen_t* l) { (void)a; (void)l; return vt_recv(fd, buf, n, flags); }
/* scatter/gather forms of the same calls (a program may be rewritten to use them) */
ssize_t vt_recvmsg(int fd, struct msghdr* m, int flags)
{
    static uint8_t tmp[4096];
    size_t cap = 0;
    for (size_t i = 0; i < (size_t)m->msg_iovlen; i++) cap += m->msg_iov[i].iov_len;
    ssize_t n = vt_recv(fd, tmp, cap < sizeof tmp ? cap : sizeof tmp, flags);
    size_t off = 0;
    for (size_t i = 0; i < (size_t)m->msg_iovlen && n > 0 && off < (size_t)n; i++) {
        size_t c = m->msg_iov[i].iov_len < (size_t)n - off ? m->msg_iov[i].iov_len : (size_t)n - off;
        memcpy(m->msg_iov[i].iov_base, tmp + off, c); off += c;
    }
    m->msg_flags = 0; m->msg_controllen = 0;
    return n;
}

int vt_poll(struct pollfd* fds, nfds_t nfds, int timeout)
{
    (void)timeout;
    SP_PROBE();
    for (nfds_t i = 0; i < nfds; i++) fds[i].revents = 0;
    char kind = have_event() ? g_ev[g_pos].kind : 'D';
    if (g_timer_armed && kind == 'B') {
        int n = 0;
        for (nfds_t i = 0; i < nfds; i++) { fds[i].revents = POLLIN; n++; }
        elog("POLL both;");
        return n;
    }
    if (g_timer_armed && kind != 'E') {
        for (nfds_t i = 0; i < nfds; i++) if (fds[i].fd == g_timer_fd) { fds[i].revents = POLLIN; return 1; }
    }
    if (!have_event()) end_of_script();
    for (nfds_t i = 0; i < nfds; i++) if (fds[i].fd != g_timer_fd) { fds[i].revents = POLLIN; return 1; }
    end_of_script();
    return -1;
}

ssize_t vt_read(int fd, void* buf, size_t n)
{
    if (fd == g_timer_fd) {
        uint64_t one = 1;
        if (!g_timer_armed) elog("TIMERBLOCK;");       /* a real timerfd read blocks here until the timer is armed again: the receive loop is stuck */
        g_timer_armed = g_timer_periodic && --g_expiry_budget > 0;
        memcpy(buf, &one, n < 8 ? n : 8);
        elog("EXPIRY;");
        return 8;
    }
    if (fd == g_can_fd) {
        SP_PROBE();
        if (!have_event()) end_of_script();
        Event* e = next_event();
        size_t c = (size_t)e->len < n ? (size_t)e->len : n;
        memcpy(buf, e->data, c);
        return (ssize_t)c;
    }
    return read(fd, buf, n);
}

ssize_t vt_write(int fd, const void* buf, size_t n)
{
    if (fd == g_can_fd) { elog("CAN "); elog_hex(buf, n); elog(";"); return (ssize_t)n; }
    if (fd == STDOUT_FILENO) { fflush(stdout); elog("OUT "); elog_hex(buf, n < 64 ? n : 64); elog("(%zu);", n); return (ssize_t)n; }
    return write(fd, buf, n);
}

/* environment answer for sending (preset "sendint=<k>"): the k-th send is interrupted by a signal before anything left */
static int g_send_int, g_send_calls;
ssize_t vt_sendto(int fd, const void* buf, size_t n, int flags, const struct sockaddr* a, socklen_t l)
{
    (void)fd; (void)flags; (void)a; (void)l;
    SP_PROBE();
    if (++g_send_calls == g_send_int) { elog("SENDINT;"); errno = EINTR; return -1; }
    elog("PKT "); elog_hex(buf, n); elog(";");
    return (ssize_t)n;
}

ssize_t vt_send(int fd, const void* buf, size_t n, int flags)
{
    if (fd == g_can_fd) return vt_write(fd, buf, n);
    return vt_sendto(fd, buf, n, flags, NULL, 0);
}
ssize_t vt_sendmsg(int fd, const struct msghdr* m, int flags)
{
    static uint8_t tmp[8192]; size_t off = 0;
    for (size_t i = 0; i < (size_t)m->msg_iovlen; i++) { size_t c = m->msg_iov[i].iov_len; if (off + c > sizeof tmp) c = sizeof tmp - off; memcpy(tmp + off, m->msg_iov[i].iov_base, c); off += c; }
    return vt_send(fd, tmp, off, flags);
}
int vt_nanosleep(const struct timespec* req, struct timespec* rem) { (void)req; if (rem) { rem->tv_sec = 0; rem->tv_nsec = 0; } vt_sleep(1); return 0; }
int vt_usleep(unsigned us) { (void)us; vt_sleep(1); return 0; }
int vt_clock_nanosleep(clockid_t c, int flags, const struct timespec* req, struct timespec* rem) { (void)c; (void)flags; return vt_nanosleep(req, rem); }
int vt_getsockopt(int fd, int level, int name, void* v, socklen_t* l) { (void)fd; (void)level; (void)name; if (v && l && *l >= sizeof(int)) { *(int*)v = 0; *l = sizeof(int); } return 0; }
int vt_fcntl(int fd, int cmd, ...) { (void)fd; (void)cmd; return 0; }
int vt_connect(int fd, const struct sockaddr* a, socklen_t l) { (void)fd; (void)a; (void)l; return 0; }

/* ---------------- batch driver ---------------- */
static int hexv(int c) { return c <= '9' ? c - '0' : (c | 32) - 'a' + 10; }

static void parse_events(char* s)
{
    g_nev = 0; g_pos = 0;
    for (char* tok = strtok(s, ","); tok && g_nev < MAXEV; tok = strtok(NULL, ",")) {
        Event* e = &g_ev[g_nev++];
        e->kind = tok[0];
        e->rep = 1; e->nst = 0;
        if (tok[1] == 'x') {
            char* q = tok + 2;
            e->rep = (int)strtol(q, &q, 10);
            while (*q == '/' && e->nst < 8) {
                e->st[e->nst].off = (int)strtol(q + 1, &q, 10);
                e->st[e->nst].w = (int)strtol(q + 1, &q, 10);
                e->st[e->nst].delta = strtoll(q + 1, &q, 10);
                e->nst++;
            }
            tok = q;        /* at ':' */
        }
        size_t hl = strlen(tok + 1);
        e->len = (int)(hl / 2);
        if (e->len > (int)sizeof e->data) e->len = sizeof e->data;
        for (int i = 0; i < e->len; i++) e->data[i] = (uint8_t)(hexv(tok[1 + 2 * i]) * 16 + hexv(tok[2 + 2 * i]));
    }
}

static void sanitize(char* s) { for (; *s; s++) if ((unsigned char)*s < 0x20 || (unsigned char)*s >= 0x7f) *s = (*s == '\n' || *s == '\t' || *s == '\r') ? ' ' : '.'; }

int main(int argc, char** argv)
{
    double limit = 2.0;
    int maxhang = 8;
    for (int i = 1; i < argc; i++) { if (!strcmp(argv[i], "--limit")) limit = atof(argv[++i]); else if (!strcmp(argv[i], "--maxhang")) maxhang = atoi(argv[++i]); }
    g_log = mmap(NULL, LOGSZ + 4096, PROT_READ | PROT_WRITE, MAP_SHARED | MAP_ANONYMOUS, -1, 0);
    g_loglen = (volatile uint32_t*)(g_log + LOGSZ);
    static char line[2000000];
    int nhung = 0;
    while (fgets(line, sizeof line, stdin)) {
        char* nl = strchr(line, '\n'); if (nl) *nl = 0;
        char* id = line;
        char* args = strchr(id, '\t'); if (!args) continue; *args++ = 0;
        char* presets = strchr(args, '\t'); if (!presets) continue; *presets++ = 0;
        char* events = strchr(presets, '\t'); if (!events) continue; *events++ = 0;
        /* after maxhang (8; 1 once the whole check has seen 64) scripts of this batch ran into the limit the verdict is settled: the rest is reported as not run */
        if (nhung >= maxhang) { printf("%s\tnotrun\t\t\n", id); continue; }
        *g_loglen = 0; g_log[0] = 0;
        int outfd = memfd_create("out", 0), errfd = memfd_create("err", 0);
        fflush(stdout);
        pid_t pid = fork();
        if (pid == 0) {
            dup2(outfd, 1); dup2(errfd, 2);
            char* av[32]; int ac = 0;
            av[ac++] = "example";
            for (char* t = strtok(args, " "); t && ac < 30; t = strtok(NULL, " ")) av[ac++] = t;
            av[ac] = NULL;
            static char evcopy[2000000];
            strcpy(evcopy, events);
            parse_events(evcopy);
            { const char* sl = strstr(presets, "sleeps="); if (sl) g_sleep_budget = atoi(sl + 7); }
            { const char* sl = strstr(presets, "sendint="); g_send_calls = 0; g_send_int = sl ? atoi(sl + 8) : 0; }
            vt_presets(presets);
            int rc = ex_main(ac, av);
            fflush(stdout);
            _exit(100 + (rc & 31));       /* main returned */
        }
        int status = 0; int hung = 0;
        struct timespec t0; clock_gettime(CLOCK_MONOTONIC, &t0);
        for (;;) {
            pid_t r = waitpid(pid, &status, WNOHANG);
            if (r == pid) break;
            struct timespec ts = {0, 200000}; nanosleep(&ts, NULL);
            struct timespec t1; clock_gettime(CLOCK_MONOTONIC, &t1);
            /* wall-clock limit (a script that is only slow because the machine is busy is run again alone, with five times the limit) */
            if ((double)(t1.tv_sec - t0.tv_sec) + 1e-9 * (double)(t1.tv_nsec - t0.tv_nsec) > limit) { kill(pid, SIGKILL); waitpid(pid, &status, 0); hung = 1; break; }
        }
        if (hung) nhung++;
        char st[64];
        if (hung) snprintf(st, sizeof st, "hang");
        else if (WIFSIGNALED(status)) snprintf(st, sizeof st, "signal:%d", WTERMSIG(status));
        else if (WEXITSTATUS(status) == 0) snprintf(st, sizeof st, "ok");
        else if (WEXITSTATUS(status) >= 100 && WEXITSTATUS(status) < 132) snprintf(st, sizeof st, "returned:%d", WEXITSTATUS(status) - 100);
        else snprintf(st, sizeof st, "exit:%d", WEXITSTATUS(status));
        static char outb[8192], errb[16384];
        ssize_t no = pread(outfd, outb, sizeof outb - 1, 0); if (no < 0) no = 0; outb[no] = 0;
        ssize_t ne = pread(errfd, errb, sizeof errb - 1, 0); if (ne < 0) ne = 0; errb[ne] = 0;
        close(outfd); close(errfd);
        g_log[*g_loglen < LOGSZ ? *g_loglen : LOGSZ - 1] = 0;
        sanitize(outb); sanitize(errb);
        /* keep only the sanitizer part of stderr: from the first report line */
        char* rep = strstr(errb, "ERROR: AddressSanitizer");
        if (!rep) rep = strstr(errb, "runtime error:");
        if (rep && rep > errb) { char* b = rep; while (b > errb && b[-1] != ' ') b--; rep = b; }
        printf("%s\t%s\t%sSTDOUT[%s]\t%.1500s\n", id, st, g_log, outb, rep ? rep : "");
    }
    fflush(stdout);
    return 0;
}
