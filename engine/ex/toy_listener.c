/* planted bug for the self-test of the E4 explorer: a receive loop that trusts
 * a length byte from the wire (copies pdu[0] bytes into an 8-byte buffer), and that
 * takes a scratch buffer with alloca() per datagram when the datagram starts with 0x05 */
#include <alloca.h>
#include <stdint.h>
#include <string.h>
#include <unistd.h>
#include <sys/socket.h>
int main(int argc, char** argv)
{
    (void)argc; (void)argv;
    int fd = socket(AF_INET, SOCK_DGRAM, 0);
    uint8_t pdu[64];
    for (;;) {
        uint8_t copy[8];
        ssize_t n = recv(fd, pdu, sizeof pdu, 0);
        if (n < 1) continue;
        if (pdu[0] == 5) { char* scratch = alloca(32); memcpy(scratch, pdu, 6); write(STDOUT_FILENO, scratch + 1, 1); continue; }
        memcpy(copy, pdu + 1, pdu[0]);
        write(STDOUT_FILENO, copy, 1);
    }
    return 0;
}
