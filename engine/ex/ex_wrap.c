/* wrapper translation unit: the example program's own source, unmodified, plus
 * the preset hook (mode variables that have no usable command line option) */
#include EX_SOURCE
#include <string.h>
void vt_presets(const char* p)
{
    (void)p;
#ifdef EX_HAS_CAN_VARIANT
    if (strstr(p, "fd")) can_variant = AVTP_CAN_FD;
#endif
}
